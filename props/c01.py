"""C01 — transition selection follows the declared machine."""
from vmon import family as F

META = {
    "level": "exploration",
    "technique": "online trace checker against an independent reference interpreter of the declared machine",
    "rule": (
        "cases = generated machines (2-7 states, several candidates per (state,event), multi-event/self/"
        "internal transitions, cond+unless mixes, validators, guards as methods/properties/attributes, "
        "rtc x allow_event_without_transition x sync/async callbacks, sync and in-loop drivers) driven "
        "by histories of 5-40 events incl. unknown and prefix-named events with the guard valuation "
        "redrawn before every event; every step is checked online against the reference selection rule. "
        ""
        "30% of the machines are written in an alternative declaration style (inheritance split, keyword events, Event objects, from_/grouped targets, dict/enum containers) and 15% of the multi-guard transitions carry their guards as ONE boolean expression (both operator spellings). "
        "A few nested sends, guards passed as module-level / class-body function objects with a same-named decoy method on another provider, guards that answer per candidate (by target), the history may continue on a deepcopy/pickle clone. "
        "distinct_nontrivial = distinct (machine shape, history) in which some event had >=2 matching "
        "candidates and a non-first one won, or no candidate was enabled, or a validator aborted."
    ),
    "assumptions": [
        "guards are pure readers of the valuation table (as the docs require)",
        "only the outcome of a guard list is judged, not evaluation order or short-circuit across entries (H2)",
        "event ids never collide with attribute names of the machine (C13 covers those)",
    ],
    "must_observe": ["events_executed", "contested_nonfirst", "not_allowed", "ignored", "validator_aborts", "guards_seen"],
    "shard_timeout": {"quick": 900, "thorough": 3400},
}

PROFILE = {"n_states": (2, 7), "n_events": (1, 4), "extra_transitions": (1, 8), "p_multi_event": 0.25,
           "p_guard": 0.7, "p_validator": 0.15, "p_conv": 0.08, "p_inline": 0.12, "p_deco": 0.05,
           "n_guard_names": 5, "p_nested": 0.06, "nested_max": 1}


def owns(rule, flags):
    return rule.startswith("C01.")


def make_case(rng, i):
    case = F.basic_case(rng, PROFILE, hist=(5, 40), drivers=("sync", "inloop"), p_unknown=0.1,
                        async_modes=("none", "none", "none", "all", "half", "one"), p_style=0.3)
    spec = case["scenario"].spec
    # some method guards answer per candidate (they look at the `target` they are asked about): the same
    # guard shared by several candidates of one event is evaluated afresh for each of them
    from vmon.rec import FALSY, TRUTHY
    shared = [n for n, g in spec["guards"].items() if g["kind"] == "method" and g["providers"] == ["sm"]]
    sids = [s_["id"] for s_ in spec["states"]]
    for st in case["scenario"].steps:
        if st.get("op") == "send" and st.get("val"):
            for n in shared:
                if rng.random() < 0.15 and st["val"].get(n) != "raise":
                    st["val"][n] = {"by_target": {sid: (rng.choice(TRUTHY) if rng.random() < 0.5 else rng.choice(FALSY)) for sid in sids}}
    if not spec.get("style"):
        for g in spec["guards"].values():
            if g["providers"] == ["sm"] and g["kind"] == "method" and not g.get("async") and rng.random() < 0.15:
                # the guard is a function object (module level or class body) instead of a name; another
                # provider has an unrelated method of the same name that must never be consulted
                g["by_obj"] = rng.choice(["module", "module", "class"])
                others = [p for p in spec["providers"] if p != "sm"]
                if others and rng.random() < 0.7:
                    g["decoy"] = rng.choice(others)
    return case


def signature(case, ck, log, fault):
    st = ck.stats
    if st["contested_nonfirst"] or st["validator_aborts"] or st["not_allowed"] or st["ignored"]:
        sc = case["scenario"]
        return [(F.spec_shape(sc.spec), [(s.get("event"), s.get("pick"), sorted((s.get("val") or {}).items(), key=str)) for s in sc.steps], sc.driver, sc.spec["opts"])]
    return []


def plan(tier, seed):
    return F.std_plan(tier, seed, 6400, 80000)


def run_shard(desc):
    return F.explore(desc, make_case, owns, signature)


def replay(witness):
    return F.replay_case(witness, owns)
