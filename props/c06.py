"""C06 — concurrent senders: mutual exclusion, exactly-once, nothing stranded.

Threads: baton scheduler at line granularity of the dispatch code + bounded-preemption DFS.
asyncio: gate-future scheduler at every await point, exhaustive DFS.
Oracle: O(n) scans over the token-tagged callback log after all senders have returned.
"""

from __future__ import annotations

import asyncio
import random
import time

from vmon import sched_async as SA
from vmon import sched_threads as ST
from vmon.family import h
from vmon.rec import Recorder

META = {
    "level": "exploration",
    "technique": "controlled schedulers (sys.monitoring LINE baton for threads, gate futures for asyncio) enumerating interleavings + offline token-log checker",
    "rule": (
        "cases = schedules. Threads: 2-4 sender threads x 1-3 sends on one sync rtc machine whose "
        "callbacks contain 0-2 explicit yield points and optional nested sends; every line boundary of "
        "the dispatch code (engines/sync.py, engines/base.py, Event.__call__, send) is a scheduling "
        "point; exhaustive DFS with preemption bound b (quick: b=1 for 2x1, 2x2, 3x1; thorough: b=2 and "
        "b=3) plus seeded random/priority schedules for 3-4 senders. asyncio: 2-4 tasks, coroutine "
        "callbacks with 1-3 gate points and optional nested sends, senders starting before and after "
        "activation; exhaustive DFS over which parked task resumes. Oracle after all senders returned: "
        "callback intervals of different tokens are disjoint, every token has exactly one complete "
        "callback sequence, each sender's tokens are processed in its send order, no token without "
        "callbacks. "
        "further asyncio configurations: an explicit activate_initial_state() task racing with senders while the initial enter is suspended, coroutine guards overlapping another sender, cancellation of a sender at each suspension point; focused thread DFS (engine code objects only) with bound 3. "
        "The cancellation probe keeps surviving callbacks of the cancelled sender in play. "
        "distinct_nontrivial = distinct schedules with >=1 context switch inside the "
        "dispatch code (threads) / >=1 switch between tasks while a callback is suspended (asyncio)."
    ),
    "assumptions": [
        "machines are self-loop machines in which every event is always allowed (the property does not cover exception paths)",
        "interleavings beyond the preemption bound and beyond 4 senders are out of reach",
        "CPython's GIL makes deque.append/popleft and Lock.acquire atomic: scheduling points are line boundaries",
    ],
    "must_observe": ["thread_schedules", "async_schedules", "dispatch_switches", "tokens_checked"],
    "shard_timeout": {"quick": 900, "thorough": 3400},
    "max_samples": 4,
}

SRC = '''
class C6_{k}(StateMachine):
    s = State(initial=True)
    tick = s.to.itself()
    tock = s.to.itself()
    {a}def before_tick(self, *args, **kwargs):
        return {w}REC.{run}("b", self, args, kwargs)
    {a}def on_tick(self, *args, **kwargs):
        return {w}REC.{run}("o", self, args, kwargs)
    {a}def after_tick(self, *args, **kwargs):
        return {w}REC.{run}("a", self, args, kwargs)
    {a}def on_tock(self, *args, **kwargs):
        return {w}REC.{run}("k", self, args, kwargs)
'''
GUARD_SRC = '''
class C6_{k}(StateMachine):
    s = State(initial=True)
    tick = s.to.itself(cond=["g_slow", "g_fail"])
    async def g_slow(self, *args, **kwargs):
        await REC.arun("gs", self, args, kwargs)
        return True
    async def g_fail(self, *args, **kwargs):
        if str(kwargs.get("_tok", "")).startswith("A0"):
            raise RuntimeError("guard failed")
        return True
    async def on_tick(self, *args, **kwargs):
        return await REC.arun("o", self, args, kwargs)
'''
INIT_SRC = '''
class C6_{k}(StateMachine):
    idle = State(initial=True)
    s = State()
    tick = idle.to(s) | s.to.itself()
    async def on_enter_idle(self, *args, **kwargs):
        return await REC.arun("e", self, args, kwargs)
    async def before_tick(self, *args, **kwargs):
        return await REC.arun("b", self, args, kwargs)
    async def on_tick(self, *args, **kwargs):
        return await REC.arun("o", self, args, kwargs)
    async def after_tick(self, *args, **kwargs):
        return await REC.arun("a", self, args, kwargs)
'''
_k = [0]


def build_init(rec):
    from statemachine import State, StateMachine

    _k[0] += 1
    src = INIT_SRC.format(k=_k[0])
    ns = {"State": State, "StateMachine": StateMachine, "REC": rec, "__name__": "vmon_c06"}
    exec(compile(src, "<c06i>", "exec"), ns)
    return ns[f"C6_{_k[0]}"], src


def build_guards(rec):
    from statemachine import State, StateMachine

    _k[0] += 1
    src = GUARD_SRC.format(k=_k[0])
    ns = {"State": State, "StateMachine": StateMachine, "REC": rec, "__name__": "vmon_c06"}
    exec(compile(src, "<c06g>", "exec"), ns)
    return ns[f"C6_{_k[0]}"], src


def build(rec, is_async):
    from statemachine import State, StateMachine

    _k[0] += 1
    src = SRC.format(k=_k[0], a="async " if is_async else "", w="await " if is_async else "",
                     run="arun" if is_async else "run")
    ns = {"State": State, "StateMachine": StateMachine, "REC": rec, "__name__": "vmon_c06"}
    exec(compile(src, "<c06>", "exec"), ns)
    return ns[f"C6_{_k[0]}"], src


EXPECT = {"tick": {"b", "o", "a"}, "tock": {"k"}}


def check_anonymous(log, sent, returned_all, errors):
    """Identical events without tokens: count-based exactly-once + non-overlap of b..a groups."""
    out = [("sender-raised", f"{n}: {e}") for n, e in errors.items()]
    nsent = sum(len(v) for v in sent.values())
    seq = [(e["k"], e["cb"]) for e in log if e["k"] in ("cb_begin", "cb_end")]
    groups, cur = 0, []
    unit = [("cb_begin", "b"), ("cb_end", "b"), ("cb_begin", "o"), ("cb_end", "o"), ("cb_begin", "a"), ("cb_end", "a")]
    ticks = [x for x in seq if x[1] in ("b", "o", "a")]
    for i in range(0, len(ticks), 6):
        if ticks[i:i + 6] != unit:
            out.append(("overlap", f"callback sequence of identical events is not a repetition of b,o,a at position {i}: {ticks[i:i + 8]}"))
            break
        groups += 1
    if groups != nsent and not out:
        out.append(("stranded" if groups < nsent else "not-exactly-once",
                    f"{nsent} identical events were accepted but {groups} were processed after all senders returned"))
    return out


def check_history(log, sent, returned_all, errors, anonymous=False, expect_initial=False):
    """-> list of (mechanism, detail). log: recorder log; sent: {sender: [tok...]} in send order."""
    if anonymous:
        return check_anonymous(log, sent, returned_all, errors)
    out = []
    ev_of, first, last, count = {}, {}, {}, {}
    for e in log:
        if e["k"] == "send_call":
            ev_of[e["tok"]] = e["event"]
        elif e["k"] == "cb_begin":
            t = e["tok"]
            first.setdefault(t, e["n"])
            count.setdefault(t, {}).setdefault(e["cb"], [0, 0])[0] += 1
        elif e["k"] == "cb_end":
            t = e["tok"]
            last[t] = e["n"]
            count.setdefault(t, {}).setdefault(e["cb"], [0, 0])[1] += 1
    for name, err in errors.items():
        out.append(("sender-raised", f"{name}: {err}"))
    # mutual exclusion: intervals disjoint
    iv = sorted((first[t], last.get(t, 10 ** 9), t) for t in first)
    for (a0, a1, ta), (b0, b1, tb) in zip(iv, iv[1:]):
        if b0 < a1:
            out.append(("overlap", f"callbacks of {tb} (from n={b0}) began before those of {ta} ended (n={a1})"))
            break
    # exactly once + nothing stranded
    for t, ev in ev_of.items():
        got = count.get(t, {})
        if not got:
            out.append(("stranded" if returned_all else "unprocessed", f"event {ev}/{t} was accepted but never processed although all senders returned"))
            continue
        want = EXPECT[ev]
        if set(got) != want or any(c != [1, 1] for c in got.values()):
            out.append(("not-exactly-once", f"event {ev}/{t}: callbacks {got} expected each of {sorted(want)} once"))
    # per-sender order
    for sender, toks in sent.items():
        starts = [first[t] for t in toks if t in first]
        if starts != sorted(starts):
            out.append(("sender-order", f"{sender}: tokens {toks} processed out of send order"))
    if expect_initial:
        got = count.get("__initial__", {})
        if got != {"e": [1, 1]}:
            out.append(("initial-not-exactly-once", f"initial activation ran callbacks {got}; expected the initial enter exactly once"))
        elif any(first[t] < last["__initial__"] for t in first if t != "__initial__"):
            out.append(("overlap", "an event's callbacks began before the initial activation had finished"))
    return out


def check_guard_history(log, sent, errors):
    """Machine whose event has two coroutine guards, one failing for sender A0 while the other is
    suspended: the guard of the failed event must not run on while later events are processed."""
    out = [("sender-raised", f"{n}: {e}") for n, e in errors.items()]
    first, last = {}, {}
    for e in log:
        if e["k"] == "cb_begin":
            first.setdefault(e["tok"], e["n"])
        elif e["k"] == "cb_end":
            last[e["tok"]] = e["n"]
    iv = sorted((first[t], last.get(t, 10 ** 9), t) for t in first)
    for (a0, a1, ta), (b0, b1, tb) in zip(iv, iv[1:]):
        if b0 < a1:
            out.append(("overlap", f"callbacks of {tb} (from n={b0}) began before the guard/callbacks of {ta} ended (n={a1})"))
            break
    for sender, toks in sent.items():
        if sender == "A0":
            continue
        for t in toks:
            n_on = sum(1 for e in log if e["k"] == "cb_begin" and e["tok"] == t and e["cb"] == "o")
            if n_on != 1:
                out.append(("not-exactly-once", f"event {t}: on_tick ran {n_on} times"))
    return out


def scripts(cfg):
    if cfg.get("guards"):
        return {"gs": {"ret": "none", "yields": cfg.get("yields", 2)}, "o": {"ret": "none", "yields": 1}}
    y = cfg.get("yields", 1)
    sc = {"b": {"ret": "none"}, "o": {"ret": "none", "yields": y}, "a": {"ret": "none"}, "k": {"ret": "none", "yields": min(y, 1)},
          "e": {"ret": "none", "yields": cfg.get("init_yields", 2)}}
    if cfg.get("nested"):
        sc["o"]["sends"] = [{"event": "tock"}]
    if cfg.get("yield_after"):
        sc["a"]["yields"] = 1
    return sc


# ------------------------------------------------------------------ threads
class GateProxy:
    def yield_point(self, who=None):
        s = ST._active["sched"]
        if s is not None:
            s.yield_point(who)


def run_threads_once(cfg, prefix):
    rec = Recorder()
    rec.scripts = scripts(cfg)
    rec.gate = GateProxy()
    rec.send_budget = 99
    cls, src = build(rec, False)
    sm = cls()
    sent = {}

    def sender(name):
        def body():
            for i in range(cfg.get("sends_by", {}).get(name, cfg["sends"])):
                tok = f"{name}.{i}"
                sent.setdefault(name, []).append(tok)
                rec.emit("send_call", tok=tok, event="tick", sender=name)
                if cfg.get("anonymous"):
                    res = sm.send("tick", 5)      # identical, indistinguishable events
                else:
                    res = sm.send("tick", _tok=tok)
                rec.emit("send_return", tok=tok, val=repr(res))
        return body

    bodies = {f"T{i}": sender(f"T{i}") for i in range(cfg["senders"])}
    sched = ST.run_schedule(prefix, bodies)
    problems = check_history(rec.log, sent, not sched.hung, sched.errors, cfg.get("anonymous"))
    if sched.hung:
        problems.append(("hung", f"threads {sched.hung} did not finish"))
    return sched, rec, problems, src


def explore_threads(cfg, bound, shard, nshards, counters, violations, sigs, samples, budget_s, mode="dfs", seed=0, n_random=0):
    ST.install(focus=bool(cfg.get("focus")))
    t0 = time.time()
    try:
        if mode == "dfs":
            root, rec, problems, src = run_threads_once(cfg, [])
            frontier = []
            kids = ST.children(root.trace, 0, bound)
            for i, kid in enumerate(kids):
                if i % nshards == shard:
                    frontier.append(kid)
            pending = [([], root, rec, problems, src)] if shard == 0 else []
            complete = True
            while pending or frontier:
                if pending:
                    prefix, sched, rec, problems, src = pending.pop()
                else:
                    prefix = frontier.pop()
                    sched, rec, problems, src = run_threads_once(cfg, prefix)
                    frontier.extend(ST.children(sched.trace, len(prefix), bound))
                record_thread_run(cfg, bound, prefix, sched, rec, problems, src, counters, violations, sigs, samples)
                if time.time() - t0 > budget_s:
                    complete = False
                    counters["time_capped"] = counters.get("time_capped", 0) + 1
                    break
            return complete
        rng = random.Random(seed)
        for _ in range(n_random):
            # random schedule: a random prefix of choices with a random number of preemptions
            base, rec, problems, src = run_threads_once(cfg, [])
            n = len(base.trace)
            prefix = [c for c, _e, _r in base.trace]
            for _p in range(rng.randint(1, 4)):
                i = rng.randrange(n)
                enabled = base.trace[i][1]
                prefix = prefix[:i] + [rng.choice(enabled)]
                base, rec, problems, src = run_threads_once(cfg, prefix)
                n = len(base.trace)
                prefix = [c for c, _e, _r in base.trace]
                if not n:
                    break
            record_thread_run(cfg, 99, prefix, base, rec, problems, src, counters, violations, sigs, samples)
            if time.time() - t0 > budget_s:
                break
        return None
    finally:
        ST.uninstall()


def record_thread_run(cfg, bound, prefix, sched, rec, problems, src, counters, violations, sigs, samples):
    counters["thread_schedules"] += 1
    counters["decision_points"] = counters.get("decision_points", 0) + len(sched.trace)
    counters["dispatch_switches"] += sched.switches_in_dispatch
    counters["tokens_checked"] += sum(1 for e in rec.log if e["k"] == "send_call")
    counters["log_events"] = counters.get("log_events", 0) + len(rec.log)
    choices = [c for c, _e, _r in sched.trace]
    if sched.switches_in_dispatch:
        sigs.add(h(("t", cfg, choices)))
    order = [e["tok"] for e in rec.log if e["k"] == "cb_begin" and e["cb"] in ("b", "k")]
    counters.setdefault("distinct_processing_orders", [])
    key = h(("t", cfg, order))
    if key not in counters["distinct_processing_orders"] and len(counters["distinct_processing_orders"]) < 400:
        counters["distinct_processing_orders"].append(key)
    for mech, detail in problems:
        violations.append({
            "mechanism": f"threads:{mech}", "rule": "C06." + mech, "detail": detail,
            "witness": {"kind": "threads", "cfg": cfg, "bound": bound, "schedule": choices, "source": src,
                        "log": [{k: v for k, v in e.items() if k in ("k", "n", "tok", "cb", "event", "sender")} for e in rec.log][-60:]},
        })
    if len(samples) < 2 and sched.switches_in_dispatch >= 2:
        samples.append({"kind": "threads", "cfg": cfg, "schedule": choices[:80],
                        "token_processing_order": order})


# ------------------------------------------------------------------ asyncio
async def _arun(cfg, prefix, rec):
    cls, src = build_guards(rec) if cfg.get("guards") else (build_init(rec) if cfg.get("activator") else build(rec, True))
    gate = SA.Gate(prefix)
    rec.gate = gate
    sm = cls()
    if cfg.get("activate_first", True):
        await sm.activate_initial_state()
    sent = {}
    errors = {}

    a0_done = asyncio.Event()

    async def sender(name):
        try:
            if cfg.get("guards") and name != "A0":
                await a0_done.wait()       # failing events are not mixed with concurrency (exception paths are C04's)
            for i in range(cfg["sends"]):
                await gate.point(name)
                tok = f"{name}.{i}"
                sent.setdefault(name, []).append(tok)
                rec.emit("send_call", tok=tok, event="tick", sender=name)
                if cfg.get("anonymous"):
                    res = await sm.send("tick", 5)
                else:
                    res = await sm.send("tick", _tok=tok)
                rec.emit("send_return", tok=tok, val=repr(res))
        except Exception as err:  # noqa: BLE001
            if not (cfg.get("guards") and name == "A0"):     # A0's guard is scripted to fail
                errors[name] = f"{type(err).__name__}: {err}"
        finally:
            if name == "A0":
                a0_done.set()

    async def activator():
        # one task activates the initial state explicitly while the others already send events
        try:
            await gate.point("AI")
            await sm.activate_initial_state()
        except Exception as err:  # noqa: BLE001
            errors["AI"] = f"{type(err).__name__}: {err}"

    tasks = [asyncio.create_task(sender(f"A{i}"), name=f"A{i}") for i in range(cfg["senders"])]
    if cfg.get("activator"):
        tasks.insert(cfg.get("activator_pos", 0), asyncio.create_task(activator(), name="AI"))
    stuck = None
    try:
        await asyncio.wait_for(gate.controller(tasks), 30)
    except SA.Stuck as err:
        stuck = str(err)
    except asyncio.TimeoutError:
        stuck = "controller timeout"
    for t in tasks:
        if not t.done():
            t.cancel()
    await asyncio.gather(*tasks, return_exceptions=True)
    return gate, sent, errors, stuck, src


def run_async_once(cfg, prefix):
    rec = Recorder()
    rec.scripts = scripts(cfg)
    rec.send_budget = 99
    gate, sent, errors, stuck, src = asyncio.run(_arun(cfg, prefix, rec))
    if cfg.get("guards"):
        problems = check_guard_history(rec.log, sent, errors)
    else:
        problems = check_history(rec.log, sent, stuck is None, errors, cfg.get("anonymous"), expect_initial=bool(cfg.get("activator")))
    if stuck:
        problems.append(("stuck", stuck))
    return gate, rec, problems, src


def explore_async(cfg, shard, nshards, counters, violations, sigs, samples, budget_s):
    t0 = time.time()
    root, rec, problems, src = run_async_once(cfg, [])
    kids = SA.children(root.trace, 0)
    frontier = [k for i, k in enumerate(kids) if i % nshards == shard]
    pending = [([], root, rec, problems, src)] if shard == 0 else []
    complete = True
    while pending or frontier:
        if pending:
            prefix, gate, rec, problems, src = pending.pop()
        else:
            prefix = frontier.pop()
            gate, rec, problems, src = run_async_once(cfg, prefix)
            frontier.extend(SA.children(gate.trace, len(prefix)))
        counters["async_schedules"] += 1
        counters["tokens_checked"] += sum(1 for e in rec.log if e["k"] == "send_call")
        choices = [c for c, _e in gate.trace]
        switches = sum(1 for a, b in zip(choices, choices[1:]) if a != b)
        if switches:
            sigs.add(h(("a", cfg, choices)))
        order = [e["tok"] for e in rec.log if e["k"] == "cb_begin" and e["cb"] in ("b", "k")]
        key = h(("a", cfg, order))
        counters.setdefault("distinct_processing_orders", [])
        if key not in counters["distinct_processing_orders"] and len(counters["distinct_processing_orders"]) < 400:
            counters["distinct_processing_orders"].append(key)
        for mech, detail in problems:
            violations.append({
                "mechanism": f"asyncio:{mech}", "rule": "C06." + mech, "detail": detail,
                "witness": {"kind": "asyncio", "cfg": cfg, "schedule": choices, "source": src,
                            "log": [{k: v for k, v in e.items() if k in ("k", "n", "tok", "cb", "event", "sender")} for e in rec.log][-60:]},
            })
        if len(samples) < 1 and switches >= 3:
            samples.append({"kind": "asyncio", "cfg": cfg, "schedule": choices, "token_processing_order": order})
        if time.time() - t0 > budget_s:
            complete = False
            counters["time_capped"] = counters.get("time_capped", 0) + 1
            break
    return complete


# ------------------------------------------------------------------ asyncio: cancellation of a sender
async def _cancel_run(cfg, cancel_at, rec):
    """Sender A0 is cancelled while the callback processing its event is suspended at its
    `cancel_at`-th gate point; afterwards sender A1 sends its events: all of them must be processed."""
    cls, src = build(rec, True)
    gate = SA.Gate([])
    rec.gate = gate
    sm = cls()
    await sm.activate_initial_state()
    sent = {}

    async def sender(name, n):
        for i in range(n):
            tok = f"{name}.{i}"
            sent.setdefault(name, []).append(tok)
            rec.emit("send_call", tok=tok, event="tick", sender=name)
            res = await sm.send("tick", _tok=tok)
            rec.emit("send_return", tok=tok, val=repr(res))

    a0 = asyncio.create_task(sender("A0", 1), name="A0")
    points = 0
    cancelled = False
    for _ in range(200):
        await asyncio.sleep(0)
        if a0.done():
            break
        if gate.parked:
            points += 1
            if points == cancel_at:
                a0.cancel()
                cancelled = True
                # the parked callback tasks belong to A0's await chain: they are cancelled with it
                break
            name = sorted(gate.parked)[0]
            gate.parked.pop(name).set_result(None)
    try:
        await asyncio.wait_for(asyncio.gather(a0, return_exceptions=True), 5)
    except asyncio.TimeoutError:
        pass
    # callbacks of A0 that were parked at the gate: the cancellation of A0 must have reached them (their
    # futures are done); whatever is still alive stays in play and is scheduled together with A1
    for name in list(gate.parked):
        if gate.parked[name].done():
            gate.parked.pop(name)
    await asyncio.sleep(0)
    # second sender, after the cancellation: plain default schedule
    a1 = asyncio.create_task(sender("A1", cfg["sends"]), name="A1")
    stuck = None
    try:
        await asyncio.wait_for(gate.controller([a1]), 10)
    except (SA.Stuck, asyncio.TimeoutError) as err:
        stuck = type(err).__name__
    if not a1.done():
        a1.cancel()
    await asyncio.gather(a1, return_exceptions=True)
    return sent, cancelled, stuck, src


def explore_cancel(cfg, counters, violations, sigs, samples):
    for cancel_at in range(1, 8):
        rec = Recorder()
        rec.scripts = scripts(cfg)
        rec.send_budget = 99
        sent, cancelled, stuck, src = asyncio.run(_cancel_run(cfg, cancel_at, rec))
        if not cancelled:
            break
        counters["async_schedules"] += 1
        counters["cancellations"] = counters.get("cancellations", 0) + 1
        sigs.add(h(("cancel", cfg, cancel_at)))
        after = {"A1": sent.get("A1", [])}
        log = [e for e in rec.log if e.get("tok", "").startswith("A1") or e["k"] in ("cb_begin", "cb_end") and str(e.get("tok")).startswith("A1")]
        problems = check_history(log, after, stuck is None, {})
        a1_first = min((e["n"] for e in rec.log if e["k"] in ("cb_begin", "send_call") and str(e.get("tok")).startswith("A1")), default=None)
        zombies = [e for e in rec.log if e["k"] in ("cb_begin", "cb_end") and str(e.get("tok")).startswith("A0") and a1_first is not None and e["n"] > a1_first]
        if zombies:
            problems.append(("overlap", f"callback {zombies[0]['cb']} of the cancelled sender's event went on after the next sender's event had begun"))
        if stuck:
            problems.append(("stuck", f"sender A1 did not finish after A0 was cancelled ({stuck})"))
        for mech, detail in problems:
            violations.append({"mechanism": f"asyncio-after-cancellation:{mech}", "rule": "C06." + mech,
                               "detail": f"A0 cancelled at its gate point {cancel_at}; then: {detail}",
                               "witness": {"kind": "asyncio-cancel", "cfg": cfg, "schedule": [cancel_at], "source": src}})


# ------------------------------------------------------------------ plan
def plan(tier, seed):
    S = []
    if tier == "quick":
        S.append({"kind": "threads", "cfg": {"senders": 2, "sends": 1, "yields": 0}, "bound": 1, "shard": 0, "nshards": 1})
        S.append({"kind": "threads", "cfg": {"senders": 2, "sends": 1, "yields": 1, "nested": True}, "bound": 1, "shard": 0, "nshards": 1})
        S.append({"kind": "threads", "cfg": {"senders": 2, "sends": 2, "yields": 1, "anonymous": True}, "bound": 1, "shard": 0, "nshards": 1})
        S.append({"kind": "asyncio", "cfg": {"senders": 3, "sends": 2, "yields": 1, "anonymous": True}, "shard": 0, "nshards": 1})
        for i in range(8):
            S.append({"kind": "threads", "cfg": {"senders": 2, "sends": 1, "yields": 1}, "bound": 2, "shard": i, "nshards": 8})
        for i in range(4):
            # scheduling points restricted to enqueue / elect / drain / release: bound 3 becomes affordable
            S.append({"kind": "threads", "cfg": {"senders": 2, "sends": 1, "sends_by": {"T1": 2}, "yields": 0, "focus": True},
                      "bound": 3, "shard": i, "nshards": 4})
        for i in range(2):
            S.append({"kind": "threads", "cfg": {"senders": 2, "sends": 2, "yields": 1}, "bound": 1, "shard": i, "nshards": 2})
        for i in range(4):
            S.append({"kind": "threads", "cfg": {"senders": 3, "sends": 1, "yields": 0}, "bound": 1, "shard": i, "nshards": 4})
        for i in range(3):
            S.append({"kind": "threads-random", "cfg": {"senders": 3 + (i % 2), "sends": 2, "yields": 1, "nested": i == 0}, "n": 120, "seed": seed * 31 + i})
        S.append({"kind": "asyncio", "cfg": {"senders": 2, "sends": 1, "yields": 2, "yield_after": True}, "shard": 0, "nshards": 1})
        S.append({"kind": "asyncio", "cfg": {"senders": 2, "sends": 2, "yields": 2, "guards": True}, "shard": 0, "nshards": 1})
        S.append({"kind": "asyncio-cancel", "cfg": {"senders": 2, "sends": 2, "yields": 2, "yield_after": True}})
        S.append({"kind": "asyncio-cancel", "cfg": {"senders": 2, "sends": 2, "yields": 1, "nested": True}})
        S.append({"kind": "asyncio", "cfg": {"senders": 2, "sends": 2, "yields": 2, "nested": True}, "shard": 0, "nshards": 1})
        S.append({"kind": "asyncio", "cfg": {"senders": 2, "sends": 2, "yields": 2, "activate_first": False}, "shard": 0, "nshards": 1})
        # explicit activate_initial_state() in one task (initial enter suspends) racing with senders
        S.append({"kind": "asyncio", "cfg": {"senders": 1, "sends": 2, "yields": 1, "activator": True, "activate_first": False, "init_yields": 2}, "shard": 0, "nshards": 1})
        S.append({"kind": "asyncio", "cfg": {"senders": 2, "sends": 1, "yields": 1, "activator": True, "activator_pos": 1, "activate_first": False, "init_yields": 2}, "shard": 0, "nshards": 1})
        for i in range(2):
            S.append({"kind": "asyncio", "cfg": {"senders": 3, "sends": 1, "yields": 2, "nested": True}, "shard": i, "nshards": 2})
        for i in range(2):
            S.append({"kind": "asyncio", "cfg": {"senders": 4, "sends": 1, "yields": 1}, "shard": i, "nshards": 2})
        for i in range(3):
            S.append({"kind": "asyncio", "cfg": {"senders": 3, "sends": 2, "yields": 1}, "shard": i, "nshards": 3})
        budget = 150
    else:
        for i in range(4):
            S.append({"kind": "threads", "cfg": {"senders": 2, "sends": 1, "yields": 1, "nested": True}, "bound": 2, "shard": i, "nshards": 4})
        for i in range(8):
            S.append({"kind": "threads", "cfg": {"senders": 2, "sends": 2, "yields": 1}, "bound": 2, "shard": i, "nshards": 8})
        for i in range(8):
            S.append({"kind": "threads", "cfg": {"senders": 3, "sends": 1, "yields": 0}, "bound": 2, "shard": i, "nshards": 8})
        for i in range(8):
            S.append({"kind": "threads", "cfg": {"senders": 2, "sends": 1, "yields": 0}, "bound": 3, "shard": i, "nshards": 8})
        for i in range(8):
            S.append({"kind": "threads-random", "cfg": {"senders": 4, "sends": 2 + (i % 2), "yields": 1, "nested": i % 2 == 0}, "n": 2500, "seed": seed * 31 + i})
        for i in range(8):
            S.append({"kind": "threads", "cfg": {"senders": 2, "sends": 1, "sends_by": {"T1": 2}, "yields": 0, "focus": True}, "bound": 4, "shard": i, "nshards": 8})
        for i in range(8):
            S.append({"kind": "threads", "cfg": {"senders": 2, "sends": 2, "yields": 1, "focus": True}, "bound": 3, "shard": i, "nshards": 8})
        for i in range(8):
            S.append({"kind": "threads", "cfg": {"senders": 3, "sends": 1, "yields": 0, "focus": True}, "bound": 3, "shard": i, "nshards": 8})
        for i in range(4):
            S.append({"kind": "asyncio", "cfg": {"senders": 3, "sends": 1, "yields": 2, "nested": True}, "shard": i, "nshards": 4})
        for i in range(4):
            S.append({"kind": "threads", "cfg": {"senders": 2, "sends": 2, "yields": 1, "anonymous": True}, "bound": 2, "shard": i, "nshards": 4})
        for i in range(4):
            S.append({"kind": "asyncio", "cfg": {"senders": 3, "sends": 2, "yields": 1, "anonymous": True}, "shard": i, "nshards": 4})
        for i in range(8):
            S.append({"kind": "asyncio", "cfg": {"senders": 4, "sends": 2, "yields": 1}, "shard": i, "nshards": 8})
        for i in range(4):
            S.append({"kind": "asyncio", "cfg": {"senders": 3, "sends": 3, "yields": 2, "nested": True}, "shard": i, "nshards": 4})
        S.append({"kind": "asyncio-cancel", "cfg": {"senders": 2, "sends": 3, "yields": 3, "yield_after": True, "nested": True}})
        for i in range(2):
            S.append({"kind": "asyncio", "cfg": {"senders": 2, "sends": 2, "yields": 2, "activator": True, "activator_pos": i, "activate_first": False, "init_yields": 3}, "shard": 0, "nshards": 1})
        for i in range(2):
            S.append({"kind": "asyncio", "cfg": {"senders": 3, "sends": 2, "yields": 2, "guards": True}, "shard": i, "nshards": 2})
        for i in range(4):
            S.append({"kind": "asyncio", "cfg": {"senders": 2, "sends": 2, "yields": 2, "nested": True, "activate_first": False}, "shard": i, "nshards": 4})
        budget = 500
    for s in S:
        s["budget_s"] = budget
    return S


def run_shard(desc):
    counters = {"thread_schedules": 0, "async_schedules": 0, "dispatch_switches": 0, "tokens_checked": 0}
    violations, sigs, samples = [], set(), []
    complete = None
    if "replay" in desc:
        return replay(desc["replay"])
    if desc["kind"] == "threads":
        complete = explore_threads(desc["cfg"], desc["bound"], desc["shard"], desc["nshards"], counters, violations, sigs, samples, desc["budget_s"])
    elif desc["kind"] == "asyncio-cancel":
        explore_cancel(desc["cfg"], counters, violations, sigs, samples)
    elif desc["kind"] == "threads-random":
        explore_threads(desc["cfg"], 99, 0, 1, counters, violations, sigs, samples, desc["budget_s"], mode="random", seed=desc["seed"], n_random=desc["n"])
    else:
        complete = explore_async(desc["cfg"], desc["shard"], desc["nshards"], counters, violations, sigs, samples, desc["budget_s"])
    byk = {}
    for v in violations:
        byk.setdefault(v["mechanism"], []).append(v)
    violations = [v for vs in byk.values() for v in sorted(vs, key=lambda x: len(x["witness"]["schedule"]))[:2]]
    out = {"evaluations": counters["thread_schedules"] + counters["async_schedules"], "signatures": sorted(sigs),
           "samples": samples, "counters": counters, "violations": violations}
    if complete is not None:
        out["exhaustive"] = bool(complete)
        if complete:
            counters["exhaustive_configs"] = [f"{desc['kind']}:{desc['cfg']}:b={desc.get('bound', 'all')}"]
    return out


def replay(witness):
    w = witness["witness"]
    counters = {"thread_schedules": 0, "async_schedules": 0, "dispatch_switches": 0, "tokens_checked": 0}
    violations = []
    if w["kind"] == "asyncio-cancel":
        sigs = set()
        explore_cancel(w["cfg"], counters, violations, sigs, [])
        return {"evaluations": 1, "violations": violations, "counters": counters}
    if w["kind"] == "threads":
        ST.install()
        try:
            sched, rec, problems, src = run_threads_once(w["cfg"], w["schedule"])
        finally:
            ST.uninstall()
    else:
        sched, rec, problems, src = run_async_once(w["cfg"], w["schedule"])
    for mech, detail in problems:
        violations.append({"mechanism": f"{w['kind']}:{mech}", "rule": "C06." + mech, "detail": detail, "witness": {}})
    return {"evaluations": 1, "violations": violations, "counters": counters}
