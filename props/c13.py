"""C13 — send(), event methods and bound events are one and the same entry point."""
import random
import warnings

from vmon import family as F
from vmon import gen
from vmon.run import Scenario

META = {
    "level": "exploration",
    "technique": "online trace checker with a random calling style per step + exhaustive dir() sweep of send(<attribute name>)",
    "rule": (
        "cases = (a) generated machines driven by histories in which every step uses a random calling "
        "style (sm.send, sm.<event>(), item of sm.events, item of sm.allowed_events, trigger bound with "
        "bind_events_to, MachineMixin model method): results/exceptions/traces must match the one "
        "reference regardless of style; after every step allowed_events == events with a transition "
        "leaving the current state, each exactly once (order compared where attachment order and "
        "declaration order coincide), events == declared set; (b) for generated machines with recording "
        "helper methods, sm.send(name) for EVERY name in dir(sm) that is not a declared event, plus "
        "random strings: must be TransitionNotAllowed (strict) or None (tolerant), state and helper log "
        "unchanged. "
        "styles include the trigger object itself handed to send(), the machine's own and one taken from another machine. "
        "Probes: events declared by calling a transition with a callable of another __name__, explicit Event ids, triggers outliving other references to their machine; the sweep includes internal names such as __initial__ on machines away from their initial state. "
        "distinct_nontrivial = distinct style sequences with >=3 styles + distinct "
        "attribute-name categories swept."
    ),
    "assumptions": [
        "order of allowed_events is only compared when the order of transition attachment and the order of event declaration coincide (H6b)",
        "MachineMixin machines use default options (the mixin passes none)",
    ],
    "must_observe": ["events_executed", "styles_used", "sweep_names", "allowed_order_compared"],
    "shard_timeout": {"quick": 900, "thorough": 3400},
}

PROFILE = {"n_states": (2, 5), "n_events": (2, 4), "extra_transitions": (1, 6), "p_multi_event": 0.3,
           "p_guard": 0.3, "p_validator": 0.05, "p_conv": 0.15, "p_inline": 0.2, "p_deco": 0.08,
           "providers": ["sm", "model", "l0"], "p_any": 0.3}
STYLES = ("send", "method", "events_item", "allowed_item", "bound", "send_item", "send_foreign_item")
_django = [False]


def django_once():
    if _django[0]:
        return
    _django[0] = True
    try:
        import django
        from django.conf import settings

        if not settings.configured:
            settings.configure(INSTALLED_APPS=[])
        django.setup()
    except Exception:  # noqa: BLE001
        pass


def make_case(rng, i):
    prof = dict(PROFILE)
    prof["async_mode"] = rng.choice(["none", "none", "none", "all", "half"])
    mixin = rng.random() < 0.2
    if mixin:
        prof["providers"] = ["sm", "model"]
        prof["rtc"], prof["allow"] = True, False
    spec = gen.gen_spec(rng, prof)
    styles = STYLES
    if mixin:
        spec["mixin"] = True
        spec["providers"] = [p for p in spec["providers"] if p in ("sm", "model")]
        if "model" not in spec["providers"]:
            spec["providers"].append("model")
        styles = STYLES + ("mixin", "mixin")
    steps = [{"op": "construct", "val": gen.gen_valuation(rng, spec)}]
    if spec["any_async"]:
        steps.append({"op": "activate"})
    steps += gen.gen_history(rng, spec, rng.randint(5, 18), p_unknown=0.08, styles=styles)
    driver = rng.choice(["sync", "inloop"]) if spec["any_async"] else "sync"
    return {"scenario": Scenario(spec, steps, driver), "mixin": mixin}


def owns(rule, flags):
    return rule.startswith("C13.")


def signature(case, ck, log, fault):
    seq = tuple(s.get("style") for s in case["scenario"].steps if s["op"] == "send")
    case["_counters"] = {"styles_used": len(set(seq)), "allowed_order_compared": ck.stats.get("allowed_order_compared", 0)}
    if len(set(seq)) >= 3:
        return [(seq, case["mixin"], case["scenario"].spec["any_async"])]
    return []


def plan(tier, seed):
    shards = F.std_plan(tier, seed, 2560, 30000)
    n = 8 if tier == "quick" else 32
    for i in range(n):
        shards.append({"sweep": True, "seed": seed * 977 + i, "machines": 3 if tier == "quick" else 16})
    shards.append({"entry_probes": True, "seed": seed, "count": 18 if tier == "quick" else 90})
    return shards


# ------------------------------------------------------------------ dir() sweep
def category(sm, name):
    if name.startswith("__") and name.endswith("__"):
        return "dunder"
    if name.startswith("_"):
        return "private"
    try:
        cls_attr = getattr(type(sm), name, None)
    except Exception:  # noqa: BLE001
        cls_attr = None
    if name in [s.id for s in sm.states]:
        return "state-id"
    if isinstance(cls_attr, property):
        return "property"
    if name.startswith("helper_") or name.startswith("nm") or name.startswith("fn"):
        return "user-method"
    if callable(cls_attr):
        return "library-method"
    return "attribute"


def run_sweep(desc):
    from statemachine.exceptions import TransitionNotAllowed

    from vmon import render
    from vmon.rec import Recorder

    rng = random.Random(desc["seed"])
    counters = {"sweep_names": 0, "sweep_machines": 0}
    violations, sigs, samples = [], set(), []
    for _m in range(desc["machines"]):
        spec = gen.gen_spec(rng, dict(PROFILE, async_mode="none", p_any=0.2))
        helper_log = []
        spec["extra_members"] = [
            "def helper_plain(self):\n    HELPER.append('helper_plain')\n    return 'helper-result'",
            "def helper_args(self, *args, **kwargs):\n    HELPER.append('helper_args')\n    return args",
            "@property\ndef helper_prop(self):\n    return 'prop-value'",
            "helper_attr = 42",
        ]
        spec["ns_extra"] = {"HELPER": helper_log}
        rec = Recorder()
        rec.scripts = {cid: cb["script"] for cid, cb in spec["cbs"].items()}
        with warnings.catch_warnings():
            warnings.simplefilter("ignore")
            mod, source = render.load(spec, rec)
            objs = render.provider_objects(spec, mod)
            cls = getattr(mod, f"M_{spec['uid']}")
            allow = spec["opts"]["allow"]
            sm = cls(objs["model"], allow_event_without_transition=allow,
                     listeners=[objs[p] for p in spec["providers"] if p not in ("sm", "model")])
        counters["sweep_machines"] += 1
        # half of the machines are swept away from their initial state
        if rng.random() < 0.5:
            for _k in range(6):
                try:
                    al = [str(e) for e in sm.allowed_events]
                    if not al:
                        break
                    sm.send(rng.choice(al))
                except Exception:  # noqa: BLE001
                    break
        declared = {str(e) for e in sm.events}
        names = [n for n in dir(sm) if n not in declared]
        names += ["", " ", "zz_unknown", "send ", "Send", "go!", "state", "0", "None", "__nope__", "é",
                  "__initial__", "__event__", "initial", "_initial_"]      # names the library uses internally
        names += [e + "x" for e in declared] + [e[:-1] for e in declared if len(e) > 1]
        names = [n for n in dict.fromkeys(names) if n not in declared]
        for name in names:
            counters["sweep_names"] += 1
            before_state = sm.current_state.id
            before_log = list(helper_log)
            n_events = len(rec.log)
            try:
                res = sm.send(name)
                outcome = ("returned", repr(res)[:60])
            except TransitionNotAllowed as err:
                outcome = ("TransitionNotAllowed", str(getattr(err, "event", None)))
            except Exception as err:  # noqa: BLE001
                outcome = (type(err).__name__, str(err)[:80])
            cat = category(sm, name) if name in dir(sm) else "not-an-attribute"
            sigs.add(F.h(("sweep", cat, allow)))
            bad = None
            if allow:
                if outcome != ("returned", "None"):
                    bad = f"tolerant machine: send({name!r}) -> {outcome}"
            else:
                if outcome[0] != "TransitionNotAllowed":
                    bad = f"strict machine: send({name!r}) -> {outcome}"
                elif outcome[1] != name:
                    bad = f"TransitionNotAllowed carries event {outcome[1]!r} instead of {name!r}"
            if bad is None and sm.current_state.id != before_state:
                bad = f"send({name!r}) changed the state {before_state}->{sm.current_state.id}"
            if bad is None and helper_log != before_log:
                bad = f"send({name!r}) invoked helper {helper_log[len(before_log):]}"
            if bad is None and len(rec.log) != n_events:
                bad = f"send({name!r}) ran callbacks"
            if bad:
                violations.append({"mechanism": f"send-of-non-event-name({cat})", "rule": "C13.unknown-name-is-unknown-event",
                                   "detail": bad, "witness": {"source": source, "name": name, "allow": allow}})
                del helper_log[len(before_log):]
                try:
                    if sm.current_state.id != before_state:
                        sm.current_state_value = before_state
                except Exception:  # noqa: BLE001
                    break
        if len(samples) < 1:
            samples.append({"sweep_machine_source": source[:1500], "names_swept": names[:40], "allow": allow})
        render.unload(spec)
    byk = {}
    for v in violations:
        byk.setdefault(v["mechanism"], []).append(v)
    violations = [v for vs in byk.values() for v in vs[:2]]
    return {"evaluations": counters["sweep_names"], "signatures": sorted(sigs), "samples": samples,
            "counters": counters, "violations": violations}


ENTRY_SRC = '''
def helper(self):
    LOG.append("helper")
    return "H"

class D(StateMachine):
    a = State(initial=True)
    b = State()
    ev = a.to(b)(helper)                               # event declared by calling the transition with a callable
    back = b.to(a)(lambda self: LOG.append("lam") or "L")   # ... whose __name__ is not the attribute name
    @a.to(b)
    def jump(self):
        LOG.append("jump")
        return "J"
    start = Event(a.to(b), id="begin")               # an explicit Event whose own id is not the attribute name
    leap = Event(a.to(b), name="Same name")          # two events with the same display name are two events
    hop = Event(a.to(b), name="Same name")
    def __len__(self):                                # a machine that is a (currently empty) container: falsy
        return 0

class R(StateMachine):
    x = State(initial=True)
    y = State()
    x.to(y, event=["cycle", "cycle slowdown"])       # a name repeated before a new one in one declaration
    y.to(x, event="back")

class T:
    pass
'''


def run_entry_probes(desc):
    """(1) an event declared through the decorator / call form over a callable whose __name__ differs from
    the attribute name is the event of THAT attribute in every calling style; (2) a trigger (bound onto
    another object, item of events / allowed_events) keeps working when it is the only thing the caller
    kept: it is an entry point of its machine, not a weak handle."""
    import gc

    from statemachine import Event, State, StateMachine
    from statemachine.exceptions import TransitionNotAllowed

    counters = {"entry_probes": 0}
    violations = []
    for rep in range(desc.get("count", 20)):
        log = []
        ns = {"State": State, "StateMachine": StateMachine, "Event": Event, "LOG": log, "__name__": "vmon_c13e"}
        with warnings.catch_warnings():
            warnings.simplefilter("ignore")
            problems = []
            try:
                exec(compile(ENTRY_SRC, "<c13-entry>", "exec"), ns)
                sm = ns["D"]()
                if sorted(str(e) for e in sm.events) != ["back", "ev", "hop", "jump", "leap", "start"]:
                    problems.append(f"events {[str(e) for e in sm.events]}")
                if sorted(str(e) for e in sm.allowed_events) != ["ev", "hop", "jump", "leap", "start"]:
                    problems.append(f"allowed_events in a: {[str(e) for e in sm.allowed_events]}")
                style = ["method", "send", "item"][rep % 3]
                for name, ret, tag, dst in (("ev", "H", "helper", "b"), ("back", "L", "lam", "a"), ("jump", "J", "jump", "b")):
                    del log[:]
                    if style == "method":
                        res = getattr(sm, name)()
                    elif style == "send":
                        res = sm.send(name)
                    else:
                        res = next(e for e in sm.events if str(e) == name)()
                    if res != ret or log != [tag] or sm.current_state.id != dst:
                        problems.append(f"{style} {name}: returned {res!r}, callbacks {log}, state {sm.current_state.id}")
                    if name == "jump":
                        sm.send("back")
                getattr(sm, "start")() if style == "method" else sm.send("start")
                if sm.current_state.id != "b":
                    problems.append(f"{style} start: state {sm.current_state.id}")
                sm.send("back")
                sm.send("leap")
                if sm.current_state.id != "b":
                    problems.append(f"leap: state {sm.current_state.id}")
                sm.send("back")
                r = ns["R"]()
                if sorted(str(e) for e in r.events) != ["back", "cycle", "slowdown"] or sorted(str(e) for e in r.allowed_events) != ["cycle", "slowdown"]:
                    problems.append(f"R: events {[str(e) for e in r.events]} allowed {[str(e) for e in r.allowed_events]}")
                r.send("slowdown")
                if r.current_state.id != "y":
                    problems.append(f"R: slowdown did not fire ({r.current_state.id})")
                for bad in ("helper", "<lambda>", "begin"):
                    try:
                        sm.send(bad)
                        problems.append(f"send({bad!r}) accepted")
                    except TransitionNotAllowed:
                        pass
            except Exception as err:  # noqa: BLE001
                problems.append(f"{type(err).__name__}: {err}"[:200])
            if problems:
                violations.append({"mechanism": "decorator-declared-event-under-another-name", "rule": "C13.same-entry-point",
                                   "detail": "; ".join(problems)[:500], "witness": {"source": ENTRY_SRC}})

            # (2)
            def factory(kind):
                m = ns["D"]()
                t = ns["T"]()
                m.bind_events_to(t)
                return {"bound": t.ev, "events_item": m.events[0], "allowed_item": m.allowed_events[0]}[kind], t

            kind = ["bound", "events_item", "allowed_item"][rep % 3]
            if "D" not in ns:
                counters["entry_probes"] += 1
                continue
            del log[:]
            try:
                trig, keep = factory(kind)
                if kind != "bound":
                    keep = None
                gc.collect()
                del log[:]
                res = trig()
                ok = res == "H" and log == ["helper"]
                detail = f"returned {res!r}, callbacks {log}"
            except Exception as err:  # noqa: BLE001
                ok, detail = False, f"{type(err).__name__}: {err}"[:200]
            if not ok:
                violations.append({"mechanism": "trigger-outliving-other-references-to-its-machine", "rule": "C13.same-entry-point",
                                   "detail": f"{kind}: {detail}", "witness": {"source": ENTRY_SRC, "kind": kind}})
        counters["entry_probes"] += 1
    byk = {}
    for v in violations:
        byk.setdefault(v["mechanism"], []).append(v)
    return {"evaluations": counters["entry_probes"], "signatures": [], "samples": [], "counters": counters,
            "violations": [v for vs in byk.values() for v in vs[:1]]}


def run_shard(desc):
    if desc.get("entry_probes"):
        return run_entry_probes(desc)
    django_once()
    if desc.get("sweep"):
        return run_sweep(desc)
    return F.explore(desc, make_case, owns, signature)


def replay(witness):
    django_once()
    if "scenario" in witness.get("witness", {}):
        return F.replay_case(witness, owns)
    return {"evaluations": 0, "violations": [], "counters": {}}
