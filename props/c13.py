"""C13 — send(), event methods and bound events are one and the same entry point."""
import random
import warnings

from vmon import family as F
from vmon import gen
from vmon.run import Scenario

META = {
    "level": "exploration",
    "technique": "online trace checker with a random calling style per step + exhaustive dir() sweep of send(<attribute name>)",
    "rule": (
        "cases = (a) generated machines driven by histories in which every step uses a random calling "
        "style (sm.send, sm.<event>(), item of sm.events, item of sm.allowed_events, trigger bound with "
        "bind_events_to, MachineMixin model method): results/exceptions/traces must match the one "
        "reference regardless of style; after every step allowed_events == events with a transition "
        "leaving the current state, each exactly once (order compared where attachment order and "
        "declaration order coincide), events == declared set; (b) for generated machines with recording "
        "helper methods, sm.send(name) for EVERY name in dir(sm) that is not a declared event, plus "
        "random strings: must be TransitionNotAllowed (strict) or None (tolerant), state and helper log "
        "unchanged. "
        "styles include the trigger object itself handed to send(), the machine's own and one taken from another machine. "
        "distinct_nontrivial = distinct style sequences with >=3 styles + distinct "
        "attribute-name categories swept."
    ),
    "assumptions": [
        "order of allowed_events is only compared when the order of transition attachment and the order of event declaration coincide (H6b)",
        "MachineMixin machines use default options (the mixin passes none)",
    ],
    "must_observe": ["events_executed", "styles_used", "sweep_names", "allowed_order_compared"],
    "shard_timeout": {"quick": 900, "thorough": 3400},
}

PROFILE = {"n_states": (2, 5), "n_events": (2, 4), "extra_transitions": (1, 6), "p_multi_event": 0.3,
           "p_guard": 0.3, "p_validator": 0.05, "p_conv": 0.15, "p_inline": 0.2, "p_deco": 0.08,
           "providers": ["sm", "model", "l0"], "p_any": 0.3}
STYLES = ("send", "method", "events_item", "allowed_item", "bound", "send_item", "send_foreign_item")
_django = [False]


def django_once():
    if _django[0]:
        return
    _django[0] = True
    try:
        import django
        from django.conf import settings

        if not settings.configured:
            settings.configure(INSTALLED_APPS=[])
        django.setup()
    except Exception:  # noqa: BLE001
        pass


def make_case(rng, i):
    prof = dict(PROFILE)
    prof["async_mode"] = rng.choice(["none", "none", "none", "all", "half"])
    mixin = rng.random() < 0.2
    if mixin:
        prof["providers"] = ["sm", "model"]
        prof["rtc"], prof["allow"] = True, False
    spec = gen.gen_spec(rng, prof)
    styles = STYLES
    if mixin:
        spec["mixin"] = True
        spec["providers"] = [p for p in spec["providers"] if p in ("sm", "model")]
        if "model" not in spec["providers"]:
            spec["providers"].append("model")
        styles = STYLES + ("mixin", "mixin")
    steps = [{"op": "construct", "val": gen.gen_valuation(rng, spec)}]
    if spec["any_async"]:
        steps.append({"op": "activate"})
    steps += gen.gen_history(rng, spec, rng.randint(5, 18), p_unknown=0.08, styles=styles)
    driver = rng.choice(["sync", "inloop"]) if spec["any_async"] else "sync"
    return {"scenario": Scenario(spec, steps, driver), "mixin": mixin}


def owns(rule, flags):
    return rule.startswith("C13.")


def signature(case, ck, log, fault):
    seq = tuple(s.get("style") for s in case["scenario"].steps if s["op"] == "send")
    case["_counters"] = {"styles_used": len(set(seq)), "allowed_order_compared": ck.stats.get("allowed_order_compared", 0)}
    if len(set(seq)) >= 3:
        return [(seq, case["mixin"], case["scenario"].spec["any_async"])]
    return []


def plan(tier, seed):
    shards = F.std_plan(tier, seed, 2560, 30000)
    n = 8 if tier == "quick" else 32
    for i in range(n):
        shards.append({"sweep": True, "seed": seed * 977 + i, "machines": 3 if tier == "quick" else 16})
    return shards


# ------------------------------------------------------------------ dir() sweep
def category(sm, name):
    if name.startswith("__") and name.endswith("__"):
        return "dunder"
    if name.startswith("_"):
        return "private"
    try:
        cls_attr = getattr(type(sm), name, None)
    except Exception:  # noqa: BLE001
        cls_attr = None
    if name in [s.id for s in sm.states]:
        return "state-id"
    if isinstance(cls_attr, property):
        return "property"
    if name.startswith("helper_") or name.startswith("nm") or name.startswith("fn"):
        return "user-method"
    if callable(cls_attr):
        return "library-method"
    return "attribute"


def run_sweep(desc):
    from statemachine.exceptions import TransitionNotAllowed

    from vmon import render
    from vmon.rec import Recorder

    rng = random.Random(desc["seed"])
    counters = {"sweep_names": 0, "sweep_machines": 0}
    violations, sigs, samples = [], set(), []
    for _m in range(desc["machines"]):
        spec = gen.gen_spec(rng, dict(PROFILE, async_mode="none", p_any=0.2))
        helper_log = []
        spec["extra_members"] = [
            "def helper_plain(self):\n    HELPER.append('helper_plain')\n    return 'helper-result'",
            "def helper_args(self, *args, **kwargs):\n    HELPER.append('helper_args')\n    return args",
            "@property\ndef helper_prop(self):\n    return 'prop-value'",
            "helper_attr = 42",
        ]
        spec["ns_extra"] = {"HELPER": helper_log}
        rec = Recorder()
        rec.scripts = {cid: cb["script"] for cid, cb in spec["cbs"].items()}
        with warnings.catch_warnings():
            warnings.simplefilter("ignore")
            mod, source = render.load(spec, rec)
            objs = render.provider_objects(spec, mod)
            cls = getattr(mod, f"M_{spec['uid']}")
            allow = spec["opts"]["allow"]
            sm = cls(objs["model"], allow_event_without_transition=allow,
                     listeners=[objs[p] for p in spec["providers"] if p not in ("sm", "model")])
        counters["sweep_machines"] += 1
        # half of the machines are swept away from their initial state
        if rng.random() < 0.5:
            for _k in range(6):
                try:
                    al = [str(e) for e in sm.allowed_events]
                    if not al:
                        break
                    sm.send(rng.choice(al))
                except Exception:  # noqa: BLE001
                    break
        declared = {str(e) for e in sm.events}
        names = [n for n in dir(sm) if n not in declared]
        names += ["", " ", "zz_unknown", "send ", "Send", "go!", "state", "0", "None", "__nope__", "é",
                  "__initial__", "__event__", "initial", "_initial_"]      # names the library uses internally
        names += [e + "x" for e in declared] + [e[:-1] for e in declared if len(e) > 1]
        names = [n for n in dict.fromkeys(names) if n not in declared]
        for name in names:
            counters["sweep_names"] += 1
            before_state = sm.current_state.id
            before_log = list(helper_log)
            n_events = len(rec.log)
            try:
                res = sm.send(name)
                outcome = ("returned", repr(res)[:60])
            except TransitionNotAllowed as err:
                outcome = ("TransitionNotAllowed", str(getattr(err, "event", None)))
            except Exception as err:  # noqa: BLE001
                outcome = (type(err).__name__, str(err)[:80])
            cat = category(sm, name) if name in dir(sm) else "not-an-attribute"
            sigs.add(F.h(("sweep", cat, allow)))
            bad = None
            if allow:
                if outcome != ("returned", "None"):
                    bad = f"tolerant machine: send({name!r}) -> {outcome}"
            else:
                if outcome[0] != "TransitionNotAllowed":
                    bad = f"strict machine: send({name!r}) -> {outcome}"
                elif outcome[1] != name:
                    bad = f"TransitionNotAllowed carries event {outcome[1]!r} instead of {name!r}"
            if bad is None and sm.current_state.id != before_state:
                bad = f"send({name!r}) changed the state {before_state}->{sm.current_state.id}"
            if bad is None and helper_log != before_log:
                bad = f"send({name!r}) invoked helper {helper_log[len(before_log):]}"
            if bad is None and len(rec.log) != n_events:
                bad = f"send({name!r}) ran callbacks"
            if bad:
                violations.append({"mechanism": f"send-of-non-event-name({cat})", "rule": "C13.unknown-name-is-unknown-event",
                                   "detail": bad, "witness": {"source": source, "name": name, "allow": allow}})
                del helper_log[len(before_log):]
                try:
                    if sm.current_state.id != before_state:
                        sm.current_state_value = before_state
                except Exception:  # noqa: BLE001
                    break
        if len(samples) < 1:
            samples.append({"sweep_machine_source": source[:1500], "names_swept": names[:40], "allow": allow})
        render.unload(spec)
    byk = {}
    for v in violations:
        byk.setdefault(v["mechanism"], []).append(v)
    violations = [v for vs in byk.values() for v in vs[:2]]
    return {"evaluations": counters["sweep_names"], "signatures": sorted(sigs), "samples": samples,
            "counters": counters, "violations": violations}


def run_shard(desc):
    django_once()
    if desc.get("sweep"):
        return run_sweep(desc)
    return F.explore(desc, make_case, owns, signature)


def replay(witness):
    django_once()
    if "scenario" in witness.get("witness", {}):
        return F.replay_case(witness, owns)
    return {"evaluations": 0, "violations": [], "counters": {}}
