"""C12 — listeners and the model are first-class callback providers, attached once."""
import random
import warnings

from vmon import family as F
from vmon import gen
from vmon.run import Scenario

META = {
    "level": "exploration",
    "technique": "online trace checker with per-provider expected callback sets + identity check of the provider object and machine behind every callback",
    "rule": (
        "cases = generated machines whose callback / guard / validator names are distributed over "
        "{machine, model, listeners given at construction, listeners added later with add_listener}; the "
        "same listener object attached 1-3 times (construction list duplicates, model also passed as "
        "listener, repeated add_listener at any point of the history); guard and validator names provided "
        "by several objects with independent per-provider valuations (conjunction); a second instance of "
        "the same class with its own and with a shared listener driven in between (cross-instance "
        "isolation, checked on object identity of self and machine in every callback). "
        ""
        "value-object listeners (equal or unhashable), the add_observer alias, per-instance hooks, the second instance checked on its own log, repeated evaluation of token-carrying guards judged, plus a probe with callback names that are events on one provider (own event / another machine as listener). "
        "Falsy listeners, several objects (attached and new) in one add_listener call, names the machine reserves used on model/listeners. "
        "distinct_nontrivial = distinct (provider distribution pattern of names with >=2 providers, "
        "attachment multiplicities, late-listener positions, engine) observed."
    ),
    "assumptions": [
        "unless-guards provided by several objects are kept rare and reported under their own mechanism (early providers are and-combined before negation, late ones are separate entries: the two disagree)",
        "late listeners only provide plain names (convention and inline name references), as documented",
    ],
    "must_observe": ["events_executed", "listeners_added_late", "multi_provider_guard_evals", "other_instance_steps", "reattachments"],
    "shard_timeout": {"quick": 900, "thorough": 3400},
}

PROFILE = {"n_states": (2, 5), "n_events": (1, 3), "extra_transitions": (1, 5), "p_multi_event": 0.2,
           "p_guard": 0.5, "p_validator": 0.15, "p_conv": 0.3, "p_inline": 0.35, "p_deco": 0.08,
           "providers": ["sm", "model", "l0", "l1", "l2"],
           "p_provider": {"sm": 1.0, "model": 0.7, "l0": 0.9, "l1": 0.7, "l2": 0.5},
           "guard_kinds": ["method", "method", "prop", "attr"], "p_sigdeco": 0.2}


def multi_valuation(rng, spec, active_all):
    val = gen.gen_valuation(rng, spec, p_true=0.7, p_raise=0.15)
    for nm, g in spec["guards"].items():
        if len(g["providers"]) > 1:
            val[nm] = {p: (rng.random() < 0.75) for p in g["providers"]}
    for nm, v in spec["validators"].items():
        if len(v["providers"]) > 1:
            val[nm] = {p: ("raise" if rng.random() < 0.12 else "ok") for p in v["providers"]}
    return val


def make_case(rng, i):
    prof = dict(PROFILE)
    prof["async_mode"] = rng.choice(["none", "none", "none", "all", "half"])
    spec = gen.gen_spec(rng, prof)
    listeners = [p for p in spec["providers"] if p not in ("sm", "model")]
    spec["eq_listeners"] = rng.choice([False, False, False, False, False, True, True, "unhashable"])
    spec["falsy_listeners"] = rng.choice([None, None, None, None, "len", "bool"])
    if rng.random() < 0.12:
        spec["model_shape"] = "libmodel"     # the domain model is a subclass of statemachine.model.Model
    # multi-provider guards / validators
    others = [p for p in spec["providers"] if p != "sm"]
    unless_names = {g["name"] for t in spec["transitions"] for g in t["guards"] if g["kind"] == "unless"}
    for nm, g in spec["guards"].items():
        if others and rng.random() < 0.45 and not g.get("async"):
            if nm in unless_names and rng.random() < 0.9:
                continue
            extra = rng.sample(others, rng.randint(1, min(2, len(others))))
            g["providers"] = ["sm"] + sorted(extra)
            if g["kind"] == "attr":
                g["kind"] = "method"
    for nm, v in spec["validators"].items():
        if others and rng.random() < 0.4:
            v["providers"] = ["sm"] + sorted(rng.sample(others, 1))
    # late listeners
    late = [l for l in listeners if rng.random() < 0.4]
    w7 = False
    for l in late:
        spec["providers"].remove(l)
        spec["late"].append(l)
    # names referenced inline must resolve at construction: keep >=1 early provider for each
    referenced = {r["name"] for t in spec["transitions"] for g in t["refs"].values() for r in g if r["by"] == "name"}
    referenced |= {r["name"] for refs in spec["state_refs"].values() for g in refs.values() for r in g if r["by"] == "name"}
    k = 0
    for nm in sorted(referenced):
        provs = {cb["provider"] for cb in spec["cbs"].values() if cb["name"] == nm}
        if provs and not (provs & set(spec["providers"])):
            k += 1
            spec["cbs"][f"cx{k}"] = {"name": nm, "provider": "sm", "kind": "method", "async": False,
                                      "script": {"ret": "sent"}}
    for nm, g in spec["guards"].items():
        if not (set(g["providers"]) & set(spec["providers"])):
            g["providers"] = ["sm"] + g["providers"]
    for nm, v in spec["validators"].items():
        if not (set(v["providers"]) & set(spec["providers"])):
            v["providers"] = ["sm"] + v["providers"]
    # names that the MACHINE reserves (state ids, send, states ...) are ordinary names on the model and on
    # listeners: a callback / guard called like that and provided only by them works like any other
    early_others = [p for p in spec["providers"] if p != "sm"]
    if early_others and rng.random() < 0.3:
        reserved = [s_["id"] for s_ in spec["states"]] + ["send", "states", "final_states"]
        taken = {cb["name"] for cb in spec["cbs"].values()} | set(spec["guards"]) | set(spec["validators"])
        free = [n for n in reserved if n not in taken]
        by_name = {}
        for cid, cb in spec["cbs"].items():
            by_name.setdefault(cb["name"], []).append(cb)
        movable = [n for n, lst in by_name.items() if n.startswith("nm") and all(cb["provider"] != "sm" for cb in lst)
                   and any(cb["provider"] in early_others for cb in lst)]
        if free and movable and rng.random() < 0.6:
            old_n, new_n = rng.choice(movable), free.pop(rng.randrange(len(free)))
            for cb in by_name[old_n]:
                cb["name"] = new_n
            for t in spec["transitions"]:
                for grp in t["refs"].values():
                    for r in grp:
                        if r.get("name") == old_n:
                            r["name"] = new_n
            for refs in spec["state_refs"].values():
                for grp in refs.values():
                    for r in grp:
                        if r.get("name") == old_n:
                            r["name"] = new_n
        gcand = [n for n, g in spec["guards"].items() if g["kind"] == "method" and not g.get("async") and n not in unless_names]
        if free and gcand:
            old_n, new_n = rng.choice(gcand), free.pop(rng.randrange(len(free)))
            g = spec["guards"].pop(old_n)
            g["providers"] = [rng.choice(early_others)]
            spec["guards"][new_n] = g
            for t in spec["transitions"]:
                for x in t["guards"]:
                    if x["name"] == old_n:
                        x["name"] = new_n
    early_async = any(cb["async"] for cb in spec["cbs"].values() if cb["provider"] in spec["providers"]) or any(
        g.get("async") for g in spec["guards"].values()) or any(v.get("async") for v in spec["validators"].values())
    if not early_async:
        # a sync-built machine: late listeners must be sync too, except for the rare W7 probe
        import os as _os
        probe = rng.random() < float(_os.environ.get("VMON_W7_RATE", "0.02"))
        for cb in spec["cbs"].values():
            if cb["provider"] in late:
                cb["async"] = False
        late_cbs = [c for c, cb in spec["cbs"].items() if cb["provider"] in late]
        if probe and late_cbs:
            spec["cbs"][rng.choice(late_cbs)]["async"] = True
            w7 = True
    spec["any_async"] = early_async
    if early_async:
        spec["opts"]["rtc"] = True
        for cb in spec["cbs"].values():
            if not cb["async"]:
                cb["script"].pop("sends", None)
    # per-instance hooks: callbacks assigned on ONE listener/model object (e.g. in its __init__); the
    # object of the same class that belongs to the other machine does not have them (and vice versa)
    hosts = [p for p in spec["providers"] if p != "sm"]
    if hosts and rng.random() < 0.35:
        nms = ["after_transition", "before_transition", "on_enter_state", "on_exit_state"] + [f"on_{e}" for e in spec["events"]]
        for j in range(rng.randint(1, 3)):
            host, nm = rng.choice(hosts), rng.choice(nms)
            if any(cb["name"] == nm and cb["provider"] == host for cb in spec["cbs"].values()):
                continue
            spec["cbs"][f"ci{j}"] = {"name": nm, "provider": host, "kind": "method", "async": False,
                                     "inst": rng.choice(["main", "other"]), "script": {"ret": "sent"}}
    early = [p for p in spec["providers"] if p not in ("sm", "model")]
    lst = list(early)
    reattach = 0
    for l in early:
        if rng.random() < 0.3:
            lst.append(l)
            reattach += 1
    if "model" in spec["providers"] and rng.random() < 0.25:
        lst.append("model")
        reattach += 1
    rng.shuffle(lst)
    steps = [{"op": "construct", "val": multi_valuation(rng, spec, None), "listeners": lst}]
    if spec["any_async"]:
        steps.append({"op": "activate"})
    hist = gen.gen_history(rng, spec, rng.randint(5, 16), p_unknown=0.03)
    for st in hist:
        st["val"] = multi_valuation(rng, spec, None)
    marks = {}
    for l in late:
        marks.setdefault(rng.randint(0, len(hist) - 1), []).append(l)
    other_built = False
    out = []
    for idx, st in enumerate(hist):
        for l in marks.get(idx, []):
            provs = [l]
            if rng.random() < 0.3:
                # one call that names an already attached object (or the model) next to the new listener
                already_now = early + [x for k_, ls in marks.items() if k_ < idx for x in ls]
                if "model" in spec["providers"]:
                    already_now = already_now + ["model"]
                if already_now:
                    provs = [rng.choice(already_now), l] if rng.random() < 0.7 else [l, rng.choice(already_now)]
                    reattach += 1
            out.append({"op": "add_listener", "providers": provs, "via": rng.choice(["listener", "listener", "observer"])})
        if rng.random() < 0.12 and (early or late):
            # re-attach an already attached listener: must not duplicate its calls
            already = early + [l for k_, ls in marks.items() if k_ <= idx for l in ls]
            if already:
                out.append({"op": "add_listener", "providers": [rng.choice(already)]})
                reattach += 1
        if rng.random() < 0.2:
            if not other_built:
                o = {"op": "other", "action": "construct", "listeners": list(early)}
                if early and rng.random() < 0.4:
                    o["share"] = rng.choice(early)
                out.append(o)
                other_built = True
            else:
                out.append({"op": "other", "action": "send", "event": rng.choice(spec["events"])})
        out.append(st)
    steps += out
    driver = rng.choice(["sync", "inloop"]) if spec["any_async"] else "sync"
    return {"scenario": Scenario(spec, steps, driver), "w7": w7, "reattach": reattach, "late": len(late)}


def owns(rule, flags):
    return rule.startswith("C12.") or rule.startswith("C02.") or rule.startswith("C01.") or rule in ("construct.raised", "add_listener.raised")


def classify(case, rule, detail, log, fault, ck):
    sc = case["scenario"]
    if case.get("w7"):
        return "late-async-listener-on-sync-machine"
    multi_unless = {g["name"] for t in sc.spec["transitions"] for g in t["guards"]
                    if g["kind"] == "unless" and len(sc.spec["guards"][g["name"]]["providers"]) > 1}
    if multi_unless and (not rule.startswith("C12.") or rule.startswith("C12.other-instance:")):
        return "unless-guard-provided-by-several-objects"
    return rule


def signature(case, ck, log, fault):
    sc = case["scenario"]
    names = {}
    for cb in sc.spec["cbs"].values():
        names.setdefault(cb["name"], set()).add(cb["provider"])
    pattern = sorted(tuple(sorted(v)) for v in names.values() if len(v) >= 2)
    gp = sorted(tuple(g["providers"]) for g in sc.spec["guards"].values() if len(g["providers"]) > 1)
    mp = sum(1 for e in log if e["k"] == "guard" and len(sc.spec["guards"].get(e["name"], {}).get("providers", [])) > 1)
    case.setdefault("_counters", {}).update({"multi_provider_guard_evals": mp, "reattachments": case["reattach"]})
    if pattern or gp:
        return [(pattern[:6], gp[:4], case["reattach"] > 0, case["late"], sc.spec["any_async"])]
    return []


def extra_check(case, run, log, ck, fault):
    """The second instance (own objects of the same provider classes, possibly one shared listener) is
    checked against the reference on its own log."""
    from vmon.model import check_log

    other_log = getattr(run, "other_log", None)
    if not other_log:
        return None
    shared = next((s_.get("share") for s_ in case["scenario"].steps if s_.get("op") == "other" and s_.get("share")), None)

    def prep(c):
        c.role = "other"
        c.shared_provider = shared

    rej, ck2 = check_log(case["scenario"].spec, other_log, prepare=prep)
    case.setdefault("_counters", {})["other_instance_events"] = ck2.stats["events_executed"] + ck2.stats["not_allowed"] + ck2.stats["ignored"]
    if rej is not None:
        return ("C12.other-instance:" + rej.rule, "the second instance deviates from the reference: " + rej.detail, None)
    softs = getattr(ck2, "softs", [])
    if softs:
        return ("C12.other-instance:" + softs[0][0], softs[0][1], None)
    return None


def plan(tier, seed):
    return F.std_plan(tier, seed, 4400, 50000) + [{"twins": True, "seed": seed},
                                                  {"event_named": True, "seed": seed, "count": 150 if tier == "quick" else 3000}]


TWIN_SRC = '''
def make_listener(variant):
    if variant == 0:
        class Lst:
            def on_enter_state(self, source, *, target=None):
                LOG.append(("v0", getattr(source, "id", None), getattr(target, "id", None), None))
            def before_go(self, event, *, machine=None):
                LOG.append(("b0", str(event), machine is not None, None))
        return Lst()
    class Lst:
        def on_enter_state(self, source, **kwargs):
            LOG.append(("v1", getattr(source, "id", None), getattr(kwargs.get("target"), "id", None), sorted(kwargs)))
        def before_go(self, *args, **kwargs):
            LOG.append(("b1", str(kwargs.get("event")), kwargs.get("machine") is not None, list(args)))
    return Lst()


class TwinM(StateMachine):
    a = State(initial=True)
    b = State()
    go = a.to(b) | b.to(a)
'''


def run_twins(desc):
    """Providers whose classes share __qualname__ and class name (factory-made listeners) but declare
    different keyword-only / var parameters must each be injected according to their OWN signature."""
    import itertools

    from statemachine import State, StateMachine

    counters = {"twin_cases": 0, "twin_callbacks": 0}
    violations, sigs = [], set()
    for order, attach in itertools.product([(0, 1), (1, 0)], ["both-early", "second-late", "both-late", "model+listener"]):
        log = []
        ns = {"State": State, "StateMachine": StateMachine, "LOG": log, "__name__": "vmon_c12twins"}
        exec(compile(TWIN_SRC, "<c12twins>", "exec"), ns)
        first, second = ns["make_listener"](order[0]), ns["make_listener"](order[1])
        try:
            if attach == "both-early":
                sm = ns["TwinM"](listeners=[first, second])
            elif attach == "second-late":
                sm = ns["TwinM"](listeners=[first])
                sm.add_listener(second)
            elif attach == "both-late":
                sm = ns["TwinM"]()
                sm.add_listener(first)
                sm.add_listener(second)
            else:
                sm = ns["TwinM"](first, listeners=[second])
            del log[:]
            sm.send("go", 7, note="n")
            outcome = "ok"
        except Exception as err:  # noqa: BLE001
            outcome = f"{type(err).__name__}: {err}"[:160]
        counters["twin_cases"] += 1
        counters["twin_callbacks"] += len(log)
        sigs.add(F.h(("twins", order, attach)))
        builtins = ["event", "event_data", "machine", "model", "note", "state", "target", "transition"]
        want = sorted([("b0", "go", True, None), ("b1", "go", True, [7]), ("v0", "a", "b", None), ("v1", "a", "b", builtins)], key=str)
        got = sorted(log, key=str)
        if outcome != "ok" or got != want:
            violations.append({"mechanism": "same-qualname-providers-share-a-signature", "rule": "C12.own-signature-injection",
                               "detail": f"order={order} attach={attach} outcome={outcome} got={got} want={want}"[:900],
                               "witness": {"source": TWIN_SRC, "order": list(order), "attach": attach}})
    return {"evaluations": counters["twin_cases"], "signatures": sorted(sigs), "samples": [], "counters": counters,
            "violations": violations[:2]}


EVNAME_SRC = '''
class Pipe(StateMachine):
    a = State(initial=True)
    b = State()
    c = State(final=True)
    start = a.to(b, {group}="finish")      # the callback name is also the machine's own event
    finish = b.to(c)

class Down(StateMachine):                  # another machine used as a listener: `finish` is ITS event
    waiting = State(initial=True)
    ready = State(final=True)
    finish = waiting.to(ready)

class Plain:
    def __init__(self, tag):
        self.tag = tag
    def finish(self, *args, **kwargs):
        LOG.append(self.tag)

class Mute:
    def __init__(self, tag):
        self.tag = tag

class Model(Plain):
    state = None
'''


def run_event_named(desc):
    """A callback name that is an EVENT on one provider (the machine's own event, or the event of another
    machine attached as listener) and a plain method on the others: every provider is still called."""
    from statemachine import State, StateMachine

    rng = random.Random(desc["seed"] * 17 + 3)
    counters = {"event_named_cases": 0}
    violations, sigs = [], set()
    for _ in range(desc.get("count", 150)):
        group = rng.choice(["before", "on", "after"])
        log = []
        ns = {"State": State, "StateMachine": StateMachine, "LOG": log, "__name__": "vmon_c12e"}
        src = EVNAME_SRC.format(group=group)
        exec(compile(src, "<c12-evname>", "exec"), ns)
        model = ns["Model"]("model") if rng.random() < 0.7 else None
        lst, expect, downs = [], [], []
        for k in range(rng.randint(0, 4)):
            r = rng.random()
            if r < 0.5:
                lst.append(ns["Plain"](f"l{k}"))
                expect.append(f"l{k}")
            elif r < 0.75:
                d = ns["Down"]()
                lst.append(d)
                downs.append(d)
            else:
                lst.append(ns["Mute"](f"m{k}"))
        cut = rng.randint(0, len(lst))
        attach = rng.choice(["ctor", "late-one-call", "late-each"])
        if attach == "ctor":
            cut = len(lst)
        args = (model,) if model is not None else ()
        with warnings.catch_warnings():
            warnings.simplefilter("ignore")
            sm = ns["Pipe"](*args, listeners=lst[:cut])
            if attach == "late-one-call" and lst[cut:]:
                sm.add_listener(*lst[cut:])
            else:
                for o in lst[cut:]:
                    sm.add_listener(o)
            try:
                sm.start()
                err = None
            except Exception as e:  # noqa: BLE001
                err = f"{type(e).__name__}: {e}"[:200]
        counters["event_named_cases"] += 1
        want = sorted((["model"] if model is not None else []) + expect)
        got = sorted(log)
        state = sm.current_state.id
        dstates = [d.current_state.id for d in downs]
        sigs.add(F.h((group, model is not None, tuple(type(o).__name__ for o in lst), cut, attach)))
        if err or got != want or state != "c" or any(x != "ready" for x in dstates):
            violations.append({"mechanism": "event-named-callback:providers-skipped", "rule": "C12.all-providers-called",
                               "detail": f"group={group} attach={attach} listeners={[type(o).__name__ for o in lst]} cut={cut} model={model is not None}: "
                                         f"called {got} expected {want}; machine in {state} (expected c); downstream machines {dstates}; error={err}",
                               "witness": {"source": src, "group": group, "attach": attach}})
    return {"evaluations": counters["event_named_cases"], "signatures": sorted(sigs), "samples": [], "counters": counters,
            "violations": violations[:2]}


def run_shard(desc):
    if desc.get("twins"):
        return run_twins(desc)
    if desc.get("event_named"):
        return run_event_named(desc)
    return F.explore(desc, make_case, owns, signature, classify=classify, extra_check=extra_check)


def replay(witness):
    if "scenario" not in witness.get("witness", {}):
        return run_twins({})
    return F.replay_case(witness, owns)
