"""C16 — machines are isolated from other instances, classes and definitions."""
from vmon import family as F
from vmon import gen
from vmon.model import check_log
from vmon.run import Scenario

META = {
    "level": "exploration",
    "technique": "online trace checker of instance A under interleaved interference, plus the interfering instance checked on its own and object-identity checks in every callback",
    "rule": (
        "cases = a generated machine instance A driven by a history while, at random step boundaries and "
        "from inside A's own callbacks, other things happen in the same process: another instance of A's "
        "class (own model/listeners or a shared listener) is built and driven, A's callbacks send events to "
        "that idle instance, an unrelated class with the SAME class and method names but other "
        "signatures / coroutine bodies is defined (before or after A) and driven, a subclass of A's class "
        "adding a state and transitions on inherited states is defined, a definition that fails validation "
        "is attempted. A's trace must still match the reference interpreter, every callback must run on "
        "A's own objects, and the other instance must match the reference too. "
        "further interference: per-instance hooks, an unrelated class whose state ids equal names A resolves on itself followed by a new instance of A's class, another instance of A's class over a bare model (accepted iff no referenced name is missing), two-machine probes with partial / decorator-wrapped callbacks. "
        "More: state_field named like a guard of the class, one listeners list / one Enum shared by several machines / classes, async machines driven from several threads. "
        "distinct_nontrivial = "
        "distinct (interference class, position in the history, engine) observed."
    ),
    "assumptions": [
        "defining a subclass that adds transitions on inherited states is reported under its own mechanism (W8: State objects are shared between base and subclass)",
        "in-callback sends to the other instance are only issued from synchronous machines (for coroutine callbacks C03's cross-machine probe covers it)",
    ],
    "must_observe": ["events_executed", "other_instance_steps", "other_definitions", "pokes", "other_instance_events"],
    "shard_timeout": {"quick": 900, "thorough": 3400},
}

PROFILE = {"n_states": (2, 5), "n_events": (1, 3), "extra_transitions": (1, 5), "p_multi_event": 0.2,
           "p_guard": 0.3, "p_validator": 0.08, "p_conv": 0.25, "p_inline": 0.3, "p_deco": 0.1,
           "providers": ["sm", "model", "l0"], "p_any": 0.15}


def make_case(rng, i):
    prof = dict(PROFILE)
    prof["async_mode"] = rng.choice(["none", "none", "none", "all", "half"])
    spec = gen.gen_spec(rng, prof)
    early = [p for p in spec["providers"] if p not in ("sm", "model")]
    # per-instance hooks: callbacks assigned on one listener/model OBJECT only (e.g. in __init__); the
    # other instance's object of the same class does not have them
    hosts = [p for p in spec["providers"] if p != "sm"]
    if hosts and rng.random() < 0.5:
        names = ["after_transition", "before_transition", "on_enter_state", "on_exit_state"] + [f"on_{e}" for e in spec["events"]]
        for j in range(rng.randint(1, 3)):
            host, nm = rng.choice(hosts), rng.choice(names)
            if any(cb["name"] == nm and cb["provider"] == host for cb in spec["cbs"].values()):
                continue
            spec["cbs"][f"ci{j}"] = {"name": nm, "provider": host, "kind": "method", "async": False,
                                     "inst": rng.choice(["main", "other"]), "script": {"ret": "sent"}}
    steps = []
    kinds = set()
    pre = rng.random() < 0.0
    if rng.random() < 0.35:
        v = rng.choice([0, 3, 4, 4])
        drop = rng.random() < 0.5 or v == 4
        steps.append({"op": "other", "action": "define_same_name", "variant": v, "drop": drop,
                      "events": [rng.choice(spec["events"]) for _ in range(2)]})
        kinds.add(("same-name-class-defined-first", v, "dropped-and-collected" if drop else "kept"))
    elif rng.random() < 0.12:
        steps.append({"op": "other", "action": "construct_incomplete"})
        kinds.add(("same-class-over-incomplete-providers", "before-the-main-instance"))
    steps.append({"op": "construct", "val": gen.gen_valuation(rng, spec)})
    if spec["any_async"]:
        steps.append({"op": "activate"})
    hist = gen.gen_history(rng, spec, rng.randint(5, 14), p_unknown=0.04)
    other_built = False
    w8 = False
    if not spec["any_async"]:
        for cid, cb in spec["cbs"].items():
            if rng.random() < 0.08:
                cb["script"]["poke"] = rng.choice(spec["events"])
    for idx, st in enumerate(hist):
        r = rng.random()
        if r < 0.3:
            if not other_built:
                o = {"op": "other", "action": "construct", "listeners": list(early)}
                if early and rng.random() < 0.3:
                    o["share"] = rng.choice(early)
                steps.append(o)
                other_built = True
                kinds.add(("other-instance", "shared" in o))
            else:
                steps.append({"op": "other", "action": "send", "event": rng.choice(spec["events"])})
                kinds.add(("other-instance-send", idx * 3 // max(1, len(hist))))
        elif r < 0.42:
            v = rng.randint(0, 4)
            steps.append({"op": "other", "action": "define_same_name", "variant": v,
                          "events": [rng.choice(spec["events"]) for _ in range(2)]})
            kinds.add(("same-name-class", v, idx * 3 // max(1, len(hist))))
        elif r < 0.46:
            steps.append({"op": "other", "action": "invalid_def"})
            kinds.add(("invalid-definition",))
        elif r < 0.52:
            # an unrelated class whose state ids equal names this machine resolves on itself, then a
            # NEW instance of this machine's class (must be accepted and behave like any other)
            steps.append({"op": "other", "action": "states_named_like_attrs"})
            kinds.add(("unrelated-class-with-states-named-like-our-callbacks",))
            if not other_built:
                steps.append({"op": "other", "action": "construct", "listeners": list(early)})
                other_built = True
        elif r < 0.58:
            if rng.random() < 0.6:
                steps.append({"op": "other", "action": "construct_incomplete"})
                kinds.add(("same-class-over-incomplete-providers",))
            else:
                steps.append({"op": "other", "action": "odd_state_field"})
                kinds.add(("same-class-with-state-field-named-like-a-guard",))
        elif r < 0.60 and any(not s["final"] for s in spec["states"]):
            steps.append({"op": "other", "action": "subclass"})
            kinds.add(("subclass",))
            w8 = True
        steps.append(st)
    driver = rng.choice(["sync", "inloop"]) if spec["any_async"] else "sync"
    return {"scenario": Scenario(spec, steps, driver), "kinds": kinds, "w8": w8}


def owns(rule, flags):
    return True   # any deviation of A under interference is C16's (solo conformance is C01-C14's job)


def classify(case, rule, detail, log, fault, ck):
    if case.get("w8") and any(e["k"] == "note" and e.get("action") == "subclass" for e in log):
        return "subclass-definition-mutates-base-class-states"
    return rule


def extra_check(case, run, log, ck, fault):
    other_log = getattr(run, "other_log", None)
    n = sum(1 for e in log if e["k"] == "note" and e.get("what") in ("other-definition", "incomplete-construct", "odd-state-field"))
    p = sum(1 for e in log if e["k"] == "note" and e.get("what") == "poke")
    case["_counters"] = {"other_definitions": n, "pokes": p}
    bad = next((e for e in log if e["k"] == "note" and e.get("what") == "other-definition" and e.get("exc")), None)
    if bad:
        return ("C16.other-definition-raised", f"{bad['action']}: {bad['exc']}", bad["n"])
    if not other_log:
        return None
    shared = next((s_.get("share") for s_ in case["scenario"].steps if s_.get("op") == "other" and s_.get("share")), None)

    def prep(c):
        c.role = "other"
        c.shared_provider = shared

    rej, ck2 = check_log(case["scenario"].spec, other_log, prepare=prep)
    case["_counters"]["other_instance_events"] = ck2.stats["events_executed"] + ck2.stats["not_allowed"] + ck2.stats["ignored"]
    if rej is not None:
        return ("C16.other-instance:" + rej.rule, "the interfering instance deviates from the reference: " + rej.detail, None)
    softs = getattr(ck2, "softs", [])
    if softs:
        return ("C16.other-instance:" + softs[0][0], softs[0][1], None)
    return None


def signature(case, ck, log, fault):
    eng = "async" if case["scenario"].spec["any_async"] else "sync"
    out = [(k, eng) for k in case["kinds"]]
    if any(e["k"] == "note" and e.get("what") == "poke" for e in log):
        out.append(("poke-from-callback", eng))
    return out


def plan(tier, seed):
    return F.std_plan(tier, seed, 2560, 30000) + [{"probes": True, "seed": seed}]


def run_probes(desc):
    """Two machines in one process sharing a callback function in different flavours (plain vs
    keyword-only functools.partial): each machine's binding depends on its own callable only."""
    import random

    from props import c07

    rng = random.Random(desc["seed"] * 13 + 5)
    counters, violations, sigs = {"partial_pair_checked": 0}, [], set()
    for _ in range(60):
        c07.run_partial_pair(rng, counters, violations, sigs, two_machines=True)
    for _ in range(60):
        # two plug-in listeners with equal class/method names behind the same decorator stack, one per machine
        c07.run_wrapped_pair(rng, counters, violations, sigs, two_machines=True)
    for v in violations:
        v["rule"] = "C16.binding-of-other-machine"
    v2 = []
    for _ in range(120):
        run_shared_objects(rng, counters, v2, sigs)
    for _ in range(4):
        run_threads_probe(counters, v2)
    for _ in range(80):
        run_mixin_models(rng, counters, v2)
    violations += v2
    return {"evaluations": counters["partial_pair_checked"] + counters.get("wrapped_pair_checked", 0), "signatures": sorted(sigs), "samples": [],
            "counters": {"two_machine_partial_probes": counters["partial_pair_checked"],
                         "two_machine_wrapped_probes": counters.get("wrapped_pair_checked", 0),
                         "shared_list_sends": counters.get("shared_list_sends", 0),
                         "same_enum_two_classes": counters.get("same_enum_two_classes", 0),
                         "concurrent_sync_drivers": counters.get("concurrent_sync_drivers", 0),
                         "mixin_models_created": counters.get("mixin_models_created", 0),
                         "mixin_model_sends": counters.get("mixin_model_sends", 0)},
            "violations": violations[:2] + v2[:2] + [v for v in v2[2:] if v["mechanism"].startswith("mixin-")][:1]}


SHARED_SRC = '''
import enum

class E(enum.Enum):
    a = 1
    b = 2
    c = 3

class L:
    def __init__(self, tag):
        self.tag = tag
    def on_go(self):
        LOG.append(self.tag)

class M(StateMachine):
    a = State(initial=True)
    b = State()
    go = a.to(b) | b.to(a)

class EA(StateMachine):
    _S = States.from_enum(E, initial=E.a, final=E.c)
    go = _S.a.to(_S.b) | _S.b.to(_S.c)
'''
ENUM_B_SRC = '''
class EB(StateMachine):
    _S = States.from_enum(E, initial=E.a, final=E.c)
    jump = _S.a.to(_S.c)
    hop = _S.a.to(_S.b) | _S.b.to(_S.c)
'''


def run_shared_objects(rng, counters, violations, sigs):
    """Objects handed to several machines / classes by the caller stay the caller's: (1) one list object
    used as `listeners=` for several machines, with private listeners added to some of them;
    (2) one Enum used by two unrelated classes through States.from_enum."""
    import warnings

    from statemachine import State, StateMachine
    from statemachine.exceptions import TransitionNotAllowed
    from statemachine.states import States

    log = []
    ns = {"State": State, "StateMachine": StateMachine, "States": States, "LOG": log, "__name__": "vmon_c16s"}
    with warnings.catch_warnings():
        warnings.simplefilter("ignore")
        exec(compile(SHARED_SRC, "<c16-shared>", "exec"), ns)
        # (1)
        container = rng.choice(["list", "list", "tuple"])
        defaults = [ns["L"](f"d{i}") for i in range(rng.randint(0, 2))]
        given = defaults if container == "list" else tuple(defaults)
        n_before = len(given)
        machines, private, ops = [], {}, []
        for _ in range(rng.randint(4, 9)):
            r = rng.random()
            if r < 0.4 or not machines:
                machines.append(ns["M"](listeners=given))
                private[len(machines) - 1] = []
                ops.append(("new", len(machines) - 1))
            elif r < 0.7:
                i = rng.randrange(len(machines))
                obj = ns["L"](f"p{i}.{len(private[i])}")
                if rng.random() < 0.3 and any(private.values()):
                    obj = rng.choice([o for v in private.values() for o in v])     # the same private object on a sibling
                if all(o is not obj for o in private[i]):
                    machines[i].add_listener(obj)
                    private[i].append(obj)
                ops.append(("add", i, obj.tag))
            else:
                i = rng.randrange(len(machines))
                del log[:]
                machines[i].go()
                want = sorted(o.tag for o in defaults + private[i])
                counters["shared_list_sends"] = counters.get("shared_list_sends", 0) + 1
                ops.append(("go", i))
                if sorted(log) != want:
                    violations.append({"mechanism": "listener-list-shared-between-machines", "rule": "C16.callers-objects-stay-callers",
                                       "detail": f"machine {i} notified {sorted(log)}, expected {want} (its own defaults + private listeners); ops={ops}",
                                       "witness": {"source": SHARED_SRC, "ops": ops, "container": container}})
                    return
        if len(given) != n_before:
            violations.append({"mechanism": "listener-list-shared-between-machines", "rule": "C16.callers-objects-stay-callers",
                               "detail": f"the caller's listeners list grew from {n_before} to {len(given)} entries; ops={ops}",
                               "witness": {"source": SHARED_SRC, "ops": ops, "container": container}})
            return
        sigs.add(F.h(("shared-list", container, tuple(o[0] for o in ops))))
        # (2)
        ea_old = ns["EA"]()
        before = (sorted(str(e) for e in ea_old.allowed_events), [str(e) for e in ns["EA"].events])
        exec(compile(ENUM_B_SRC, "<c16-enumb>", "exec"), ns)
        eb = ns["EB"]()
        if rng.random() < 0.5:
            eb.jump()
        problems = []
        for label, m in (("existing instance", ea_old), ("new instance", ns["EA"]())):
            try:
                now = (sorted(str(e) for e in m.allowed_events), [str(e) for e in type(m).events])
            except Exception as err:  # noqa: BLE001
                now = f"{type(err).__name__}: {err}"[:120]
            if now != before:
                problems.append(f"{label}: (allowed, events) {now} != {before}")
            for ev in ("jump", "hop"):
                try:
                    m.send(ev)
                    problems.append(f"{label}: event {ev} of the other class was accepted")
                except TransitionNotAllowed:
                    pass
                except Exception as err:  # noqa: BLE001
                    problems.append(f"{label}: send({ev}) raised {type(err).__name__}")
        counters["same_enum_two_classes"] = counters.get("same_enum_two_classes", 0) + 1
        if problems:
            violations.append({"mechanism": "enum-states-shared-between-classes", "rule": "C16.callers-objects-stay-callers",
                               "detail": "; ".join(problems)[:600], "witness": {"source": SHARED_SRC + ENUM_B_SRC}})


MIXIN_SRC = '''
class MA(StateMachine):
    a = State(initial=True)
    b = State()
    go = a.to(b) | b.to(a)
    only_a = a.to.itself()

class MB(StateMachine):
    a = State(initial=True)
    b = State()
    c = State()
    go = a.to(c) | c.to(a)
    only_b = a.to(b) | b.to(a)

class Parent(MachineMixin):
    state_machine_name = "vmon_c16m.MA"

class Child(Parent):
    state_machine_name = "vmon_c16m.MB"

class GrandChild(Child):
    pass

class Sibling(Parent):
    state_machine_attr = "sm2"

class Other(MachineMixin):
    state_machine_name = "vmon_c16m.MB"
    state_field_name = "status"
'''
MIXIN_EXPECT = {"Parent": ("MA", "statemachine", "state"), "Child": ("MB", "statemachine", "state"),
                "GrandChild": ("MB", "statemachine", "state"), "Sibling": ("MA", "sm2", "state"),
                "Other": ("MB", "statemachine", "status")}


def run_mixin_models(rng, counters, violations):
    """Model classes built on MachineMixin, related by inheritance and naming different machine
    classes: every model instance gets a machine of the class ITS class names, in any creation
    order, and driving one instance leaves the others alone."""
    import warnings

    from statemachine import State, StateMachine
    from statemachine.exceptions import TransitionNotAllowed
    from statemachine.mixins import MachineMixin

    from props import c13

    c13.django_once()      # Django is installed in the repository's venv: an empty configured project
    ns = {"State": State, "StateMachine": StateMachine, "MachineMixin": MachineMixin, "__name__": "vmon_c16m"}
    problems = []
    with warnings.catch_warnings():
        warnings.simplefilter("ignore")
        exec(compile(MIXIN_SRC, "<c16-mixin>", "exec"), ns)
        order = [rng.choice(list(MIXIN_EXPECT)) for _ in range(rng.randint(4, 9))]
        objs = []
        for nm in order:
            mcls, attr, field = MIXIN_EXPECT[nm]
            try:
                o = ns[nm]()
            except Exception as err:  # noqa: BLE001
                problems.append(f"{nm}() after {order[:len(objs)]} raised {type(err).__name__}: {err}")
                break
            sm = getattr(o, attr, None)
            if type(sm) is not ns[mcls]:
                problems.append(f"{nm}() created after {order[:len(objs)]}: machine is {type(sm).__name__}, its class names {mcls}")
            elif sm.model is not o or getattr(o, field, None) != "a":
                problems.append(f"{nm}(): model / field not this object's ({field}={getattr(o, field, None)!r})")
            objs.append((nm, o, sm))
        expect = {id(o): "a" for _nm, o, _sm in objs}
        for _ in range(rng.randint(3, 10)):
            if problems or not objs:
                break
            nm, o, sm = rng.choice(objs)
            mcls, attr, field = MIXIN_EXPECT[nm]
            ev = rng.choice(["go", "only_a", "only_b"])
            table = ({"a": {"go": "b", "only_a": "a"}, "b": {"go": "a"}} if mcls == "MA"
                     else {"a": {"go": "c", "only_b": "b"}, "b": {"only_b": "a"}, "c": {"go": "a"}})
            want = table[expect[id(o)]].get(ev)
            try:
                sm.send(ev)
                got = "ran"
            except TransitionNotAllowed:
                got = "not-allowed"
            except Exception as err:  # noqa: BLE001
                got = type(err).__name__
            if (got == "ran") != (want is not None) or got not in ("ran", "not-allowed"):
                problems.append(f"{nm} in {expect[id(o)]}: send({ev}) -> {got}, the {mcls} machine says {'runs' if want else 'not allowed'}")
            if want is not None:
                expect[id(o)] = want
            for nm2, o2, _sm2 in objs:
                f2 = MIXIN_EXPECT[nm2][2]
                if getattr(o2, f2, None) != expect[id(o2)]:
                    problems.append(f"after {nm}.send({ev}): {nm2}.{f2} is {getattr(o2, f2, None)!r}, expected {expect[id(o2)]!r}")
            counters["mixin_model_sends"] = counters.get("mixin_model_sends", 0) + 1
        counters["mixin_models_created"] = counters.get("mixin_models_created", 0) + len(objs)
    if problems:
        violations.append({"mechanism": "mixin-model-class-gets-another-class-machine", "rule": "C16.other-class",
                           "detail": "; ".join(problems)[:600], "witness": {"source": MIXIN_SRC, "order": order}})


THREADS_SRC = '''
import asyncio

class TA(StateMachine):
    a = State(initial=True)
    b = State()
    go = a.to(b) | b.to(a)
    async def on_go(self, n):
        await asyncio.sleep(0.004)
        self.seen.append(n)
        return n
'''


def run_threads_probe(counters, violations):
    """Two (three) machines with coroutine callbacks, each driven from synchronous code in a thread of
    its own at the same time: every machine runs its own events, nobody's send() fails."""
    import threading

    from statemachine import State, StateMachine

    ns = {"State": State, "StateMachine": StateMachine, "__name__": "vmon_c16t"}
    exec(compile(THREADS_SRC, "<c16-threads>", "exec"), ns)
    for nthreads in (2, 3):
        machines = [ns["TA"]() for _ in range(nthreads)]
        for m in machines:
            m.seen = []
        errors, results = [], {}
        start = threading.Barrier(nthreads)

        def drive(i):
            try:
                start.wait(10)
                out = []
                for n in range(6):
                    out.append(machines[i].go(i * 100 + n))
                results[i] = out
            except Exception as err:  # noqa: BLE001
                errors.append(f"thread {i}: {type(err).__name__}: {err}"[:200])

        ts = [threading.Thread(target=drive, args=(i,)) for i in range(nthreads)]
        for t in ts:
            t.start()
        for t in ts:
            t.join(60)
        counters["concurrent_sync_drivers"] = counters.get("concurrent_sync_drivers", 0) + nthreads
        want = {i: [i * 100 + n for n in range(6)] for i in range(nthreads)}
        seen = {i: machines[i].seen for i in range(nthreads)}
        if errors or results != want or seen != want:
            violations.append({"mechanism": "async-machines-driven-from-several-threads", "rule": "C16.own-history-only",
                               "detail": f"errors={errors[:3]} results={results} seen={seen}"[:600], "witness": {"source": THREADS_SRC, "threads": nthreads}})
            return


def run_shard(desc):
    if desc.get("probes"):
        return run_probes(desc)
    return F.explore(desc, make_case, owns, signature, classify=classify, extra_check=extra_check)


def replay(witness):
    return F.replay_case(witness, owns)
