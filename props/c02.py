"""C02 — callback groups run in the documented order with the documented view of state."""
from vmon import family as F

META = {
    "level": "exploration",
    "technique": "online trace checker: per-phase callback multisets, exactly-once, injected view of state",
    "rule": (
        "cases = generated machines whose callback groups are sparsely and independently populated "
        "(convention names generic/event/state scoped, inline by name/callable/lambda, decorators, on "
        "machine/model/listeners; 0-3 per group) over external/self/internal/multi-event transitions, "
        "both engines and drivers; every callback begin is matched against the reference phase "
        "(validators, conditions, before, exit, on, enter, after) and its injected event/source/target/"
        "state/current_state/model field. "
        "every callback also compares event_data.state/source/target/event with the injected parameters; 20% alternative declaration styles, 20% callbacks behind a signature-preserving decorator. "
        "Inline functions named like the convention name of their own place, pairs of bound methods of two helper objects, return values that compare equal to everything. "
        "distinct_nontrivial = distinct (transition kind, populated-"
        "group bitmap, provider mix, multi-event, engine) combinations observed with >=2 populated groups."
    ),
    "assumptions": [
        "order inside one group is unconstrained (multiset matching)",
        "a name referenced inline never looks like a convention name of another scope (naming hygiene H11)",
    ],
    "must_observe": ["events_executed", "cb_checked", "phases_closed", "initial_activations"],
    "shard_timeout": {"quick": 900, "thorough": 3400},
}

PROFILE = {"n_states": (2, 5), "n_events": (1, 4), "extra_transitions": (1, 6), "p_multi_event": 0.35,
           "p_guard": 0.3, "p_validator": 0.08, "p_conv": 0.3, "p_inline": 0.4, "p_deco": 0.2,
           "p_internal": 0.5, "p_self": 0.3, "providers": ["sm", "model", "l0", "l1"], "p_reuse_ref": 0.3, "p_sigdeco": 0.2}


def owns(rule, flags):
    return rule.startswith("C02.")


def make_case(rng, i):
    return F.basic_case(rng, PROFILE, hist=(4, 14), drivers=("sync", "inloop"), p_unknown=0.03,
                        async_modes=("none", "none", "all", "half", "one"), p_style=0.2)


def signature(case, ck, log, fault):
    eng = "async" if case["scenario"].spec["any_async"] else "sync"
    return [(b, eng) for b in ck.phase_bitmaps if sum(b[1]) >= 2]


def plan(tier, seed):
    return F.std_plan(tier, seed, 4000, 60000)


def run_shard(desc):
    return F.explore(desc, make_case, owns, signature)


def replay(witness):
    return F.replay_case(witness, owns)
