"""C14 — event results come only from before/on return values, by the documented rule."""
from vmon import family as F

META = {
    "level": "exploration",
    "technique": "online trace checker: result of every send compared with the reference built from the recorded before/on returns",
    "rule": (
        "cases = generated machines with 0-3 before x 0-3 on callbacks per transition in every "
        "attachment style/provider, every other group also returning distinctive values, return values "
        "None/falsy scalars/lists/tuples/dicts/unique sentinels, internal/self/multi-event transitions, "
        "both engines, rtc on/off; the value of every send is compared with [before returns]+[on returns] "
        "(permutation inside each segment), unwrapped when one, None when none or nothing fired. "
        ""
        "20% of the machines in an alternative declaration style. "
        "Probe: an event name used as before/on action contributes the chained event's result under rtc=False. "
        "distinct_nontrivial = distinct (#before, #on, value-kind pattern, transition kind, engine) observed."
    ),
    "assumptions": ["order inside the before segment and inside the on segment is unconstrained"],
    "must_observe": ["events_executed", "results_checked"],
    "shard_timeout": {"quick": 900, "thorough": 3400},
}

PROFILE = {"n_states": (2, 4), "n_events": (1, 3), "extra_transitions": (1, 5), "p_multi_event": 0.35,
           "p_guard": 0.2, "p_validator": 0.05, "p_conv": 0.3, "p_inline": 0.5, "p_deco": 0.25,
           "p_internal": 0.5, "p_self": 0.3, "providers": ["sm", "model", "l0"], "p_nested": 0.08,
           "nested_max": 1, "p_reuse_ref": 0.3}


def owns(rule, flags):
    return rule.startswith("C14.") or rule == "C03.first-result"


def make_case(rng, i):
    return F.basic_case(rng, PROFILE, hist=(4, 14), drivers=("sync", "inloop"), p_unknown=0.05,
                        async_modes=("none", "none", "all", "half"), p_style=0.2)


def signature(case, ck, log, fault):
    out = []
    eng = "async" if case["scenario"].spec["any_async"] else "sync"
    for pat in getattr(ck, "result_patterns", ()):
        out.append((pat, eng))
    return out


def plan(tier, seed):
    return F.std_plan(tier, seed, 6000, 80000) + [{"chained": True, "seed": seed, "count": 60 if tier == "quick" else 600}]


CHAIN_SRC = '''
class P(StateMachine):
    a = State(initial=True)
    b = State()
    c = State()
    start = a.to(b, {group}={refs})
    finish = a.to(c) | b.to(c)
    def on_finish(self):
        return {fret!r}
    def {group}_start(self):
        return "S"
    def other(self):
        return {oret!r}
'''


def run_chained(desc):
    """An event NAME used as a before/on action (chained events): with rtc=False the chained event runs at
    once and ITS result is that action's contribution to the outer result; under rtc it is queued and
    contributes None. Compared for every placement next to ordinary callbacks."""
    import random
    import warnings

    from statemachine import State, StateMachine

    rng = random.Random(desc["seed"] * 7 + 5)
    counters = {"chained_event_results": 0}
    violations, sigs = [], set()
    for _ in range(desc["count"]):
        group = rng.choice(["before", "on"])
        rtc = rng.random() < 0.4
        fret = rng.choice(["F", 0, "", None, ["x"], False])
        oret = rng.choice(["O", 0, None])
        with_other = rng.random() < 0.5
        refs = ["'finish'"] + (["'other'"] if with_other else [])
        rng.shuffle(refs)
        src = CHAIN_SRC.format(group=group, refs="[" + ", ".join(refs) + "]", fret=fret, oret=oret)
        ns = {"State": State, "StateMachine": StateMachine, "__name__": "vmon_c14c"}
        with warnings.catch_warnings():
            warnings.simplefilter("ignore")
            exec(compile(src, "<c14-chain>", "exec"), ns)
            sm = ns["P"](rtc=rtc)
            try:
                res = sm.start()
            except Exception as err:  # noqa: BLE001
                res = f"{type(err).__name__}: {err}"
        contributions = [(None if rtc else fret)] + ([oret] if with_other else []) + ["S"]
        got = res if isinstance(res, list) else [res]
        counters["chained_event_results"] += 1
        sigs.add(F.h((group, rtc, repr(fret), with_other)))
        key = lambda x: repr(x)  # noqa: E731
        if sorted(got, key=key) != sorted(contributions, key=key):
            violations.append({"mechanism": "chained-event-result", "rule": "C14.result",
                               "detail": f"{group}={refs} rtc={rtc}: start() returned {res!r}; expected the values {contributions} (any order inside the group)",
                               "witness": {"source": src, "rtc": rtc}})
    return {"evaluations": counters["chained_event_results"], "signatures": sorted(sigs), "samples": [], "counters": counters,
            "violations": violations[:2]}


def run_shard(desc):
    if desc.get("chained"):
        return run_chained(desc)
    out = F.explore(desc, make_case, owns, signature)
    # the unit that is evaluated (and that distinct_nontrivial classifies) is one send result, not one scenario
    out["evaluations"] = out["counters"].get("results_checked", out["evaluations"])
    return out


def replay(witness):
    return F.replay_case(witness, owns)
