"""C05 — async callbacks behave exactly like their synchronous counterparts."""
import copy
import json

from vmon import family as F
from vmon import gen
from vmon.model import check_log
from vmon.run import Run, Scenario

META = {
    "level": "exploration",
    "technique": "differential runtime monitoring: sync twin vs coroutine twins, each also checked online against the reference interpreter; phase-barrier rule on suspending coroutines; never-awaited / pending-task sanitizers",
    "rule": (
        "cases = machines of the C01-C04 families rendered twice: all callbacks plain (sync twin) and "
        "with a coroutine subset {all, exactly one, random half} incl. coroutine guards/validators; "
        "coroutine callbacks and guards suspend 0-3 times (asyncio.sleep(0)) between their begin and "
        "end markers so an un-awaited or detached callback shows as a phase-barrier violation. Drivers: "
        "sync code without a loop, awaiting inside a running loop, alternating between two OS threads "
        "without a loop. Twins are compared step by step (result, exception type, state, callback "
        "multiset, injected values) and each twin is checked against the reference on its own; "
        "RuntimeWarning 'never awaited', 'Task was destroyed but it is pending' and unraisable "
        "exceptions inside a scenario are violations. "
        "20% of the twins use coroutine-function wrappers (functools.wraps) around plain functions returning awaitables; a separate shard puts coroutine guards in the deciding position of guard expressions. "
        "Some callbacks are plain functions returning a Future, re-activation steps (awaitable inside a loop), clone steps. "
        "distinct_nontrivial = distinct (coroutine-subset "
        "mode, driver, scenario class [nested sends / faults / guards async], suspended at least once)."
    ),
    "assumptions": [
        "twins are compared after an explicit activate_initial_state(); the implicit activation path is checked against the FIFO reference only (H5)",
        "siblings of a failing callback are masked (H4); twin workloads do not combine raising and falsy guards on one candidate (H14)",
        "direct twin comparison only for scenarios without nested sends (order inside a group is unconstrained, so the order of nested sends may legitimately differ); those are still checked against the reference individually",
        "coroutine guards inside boolean expressions are W13 (owned by C08)",
    ],
    "must_observe": ["twin_pairs", "twin_steps_compared", "suspensions", "async_guard_completions", "events_executed"],
    "shard_timeout": {"quick": 900, "thorough": 3400},
}

PROFILE = {"n_states": (2, 5), "n_events": (1, 3), "extra_transitions": (1, 5), "p_multi_event": 0.25,
           "p_guard": 0.45, "p_validator": 0.12, "p_conv": 0.22, "p_inline": 0.3, "p_deco": 0.12,
           "providers": ["sm", "model", "l0"], "guard_kinds": ["method", "method", "method", "prop", "attr"],
           "yields": 3, "p_sigdeco": 0.2}


def asyncify(rng, spec, mode):
    """Returns the coroutine twin of a sync spec."""
    tw = copy.deepcopy(spec)
    cands = [c for c, cb in tw["cbs"].items() if cb["kind"] not in ("lambda", "boundm")]
    gcands = [g for g, d in tw["guards"].items() if d["kind"] == "method"]
    vcands = list(tw["validators"])
    if mode == "all":
        chosen, gch, vch = set(cands), set(gcands), set(vcands)
    elif mode == "one":
        pool = [("c", c) for c in cands] + [("g", g) for g in gcands] + [("v", v) for v in vcands]
        if not pool:
            return None
        kind, name = rng.choice(pool)
        chosen, gch, vch = ({name} if kind == "c" else set()), ({name} if kind == "g" else set()), ({name} if kind == "v" else set())
    else:
        chosen = {c for c in cands if rng.random() < 0.5}
        gch = {g for g in gcands if rng.random() < 0.5}
        vch = {v for v in vcands if rng.random() < 0.5}
        if not (chosen or gch or vch):
            if not cands:
                return None
            chosen = {rng.choice(cands)}
    for c in chosen:
        tw["cbs"][c]["async"] = True
    for g in gch:
        tw["guards"][g]["async"] = True
    for v in vch:
        tw["validators"][v]["async"] = True
    tw["any_async"] = True
    tw["uid"] = gen.next_uid()
    return tw


def make_case(rng, i):
    prof = dict(PROFILE)
    prof["async_mode"] = "none"
    nested = rng.random() < 0.4
    if nested:
        prof.update(p_nested=0.3, nested_max=2)
    prof["rtc"] = True
    spec = gen.gen_spec(rng, prof)
    mode = rng.choice(["all", "one", "half"])
    twin = asyncify(rng, spec, mode)
    if twin is None:
        return None
    certain = any(g.get("async") for g in twin["guards"].values()) or any(
        cb["async"] and cb["provider"] == "sm" and cb["kind"] == "method" and cb["name"] in
        ("before_transition", "on_transition", "after_transition", "on_enter_state", "on_exit_state") for cb in twin["cbs"].values())
    if certain and rng.random() < 0.25:
        # some asynchronous callbacks are plain functions returning a Future (ensure_future / gather style);
        # (only when another, certainly registered, coroutine function keeps the machine on the async engine)
        for cb in twin["cbs"].values():
            if cb["async"] and cb["kind"] in ("method", "func") and not cb.get("sigdeco") and not (
                    cb["provider"] == "sm" and cb["name"].endswith(("_transition", "_state"))) and rng.random() < 0.4:
                cb["afuture"] = True
    if rng.random() < 0.2:
        # every coroutine callable of the twin is a coroutine-function WRAPPER (functools.wraps) around
        # a plain function returning an awaitable: asynchronous for the caller, plain when unwrapped
        for grp in (twin["cbs"], twin["guards"], twin["validators"]):
            for x in grp.values():
                if x.get("async") and x.get("kind") not in ("lambda", "boundm", "prop", "attr") and not x.get("sigdeco") and not x.get("afuture"):
                    x["awrap"] = True
    # H7: nested sends only in callbacks that are coroutines in the twin (same scripts on both sides)
    for c, cb in twin["cbs"].items():
        if not cb["async"]:
            cb["script"].pop("sends", None)
            spec["cbs"][c]["script"].pop("sends", None)
    steps = [{"op": "construct", "val": gen.gen_valuation(rng, spec)}, {"op": "activate"}]
    steps += gen.gen_history(rng, spec, rng.randint(4, 14), p_unknown=0.05, p_pick=0.0)
    if rng.random() < 0.2:
        steps.insert(rng.randint(2, len(steps)), {"op": "activate"})     # activating again later is a no-op (awaitable in a loop)
    if rng.random() < 0.08:
        # both twins are replaced by their deepcopy / pickle clone at the same point of the history
        steps.insert(rng.randint(2, len(steps)), {"op": "become_clone", "how": rng.choice(["deepcopy", "pickle"])})
    driver = rng.choice(["sync", "inloop", "threads"])
    fault = None
    if rng.random() < 0.25:
        fault = {"at": rng.randint(1, 12), "when": rng.choice(["before_sends", "after_sends"])}
    guard_yields = {g: rng.randint(0, 2) for g in twin["guards"]}
    return {"sync": Scenario(spec, steps, "sync"), "twin": Scenario(twin, steps, driver), "mode": mode,
            "nested": nested, "fault": fault, "guard_yields": guard_yields, "driver": driver}


def summarize(log):
    """Per top-level step: outcome, probe, callback multiset with injected values."""
    steps, cur = [], None
    for e in log:
        k = e["k"]
        if k == "step" and e["phase"] == "begin" and e["op"] in ("construct", "activate", "send"):
            if e["op"] == "activate" and cur is not None and cur["op"] == "construct":
                continue   # construction + explicit activation form one step (H5)
            cur = {"op": e["op"], "cbs": [], "out": None, "probe": None}
            steps.append(cur)
        elif cur is None:
            continue
        elif k == "cb_begin":
            cur["cbs"].append((e["cb"], e.get("event"), e.get("source"), e.get("target"), e.get("state"), e.get("cur"),
                               e.get("field"), json.dumps(e.get("args")), json.dumps(e.get("ukw"), sort_keys=True)))
        elif k == "send_return" and str(e.get("tok", "")).startswith("d"):
            cur["out"] = ("exc", e["exc"]) if e.get("exc") else ("val", json.dumps(e.get("val"), sort_keys=True))
        elif k == "step" and e["op"] in ("construct", "activate") and e["phase"] == "end" and e.get("exc"):
            cur["out"] = ("exc", e["exc"])
        elif k == "step" and e["op"] == "probe":
            cur["probe"] = (e.get("cur"), e.get("field"), tuple(e.get("allowed") or ()))
    for s in steps:
        s["cbs"] = sorted(s["cbs"])
    return steps


def run_pair(case, counters, violations, sigs, samples):
    fault = case["fault"]
    runs = {}
    for side in ("sync", "twin"):
        sc = case[side]
        run = Run(sc, fault=fault)
        run.rec.guard_yields = case["guard_yields"] if side == "twin" else {}
        log = run.execute()
        rej, ck = check_log(sc.spec, log)
        runs[side] = (run, log, rej, ck)
        counters["runs"] += 1
        for k_, v in ck.stats.items():
            counters[k_] = counters.get(k_, 0) + v
    counters["twin_pairs"] += 1
    (rs, ls, rejs, cks), (rt, lt, rejt, ckt) = runs["sync"], runs["twin"]
    counters["suspensions"] += sum(case["twin"].spec["cbs"][e["cb"]]["script"].get("yields", 0) for e in lt
                                   if e["k"] == "cb_begin" and case["twin"].spec["cbs"].get(e["cb"], {}).get("async"))

    def wit(extra=None):
        w = {"mode": case["mode"], "driver": case["driver"], "fault": fault, "sync_source": rs.source, "twin_source": rt.source,
             "steps": case["sync"].steps[:10], "scenario": case["twin"].to_json(), "guard_yields": case["guard_yields"]}
        if extra:
            w.update(extra)
        return w

    def viol(mech, rule, detail, extra=None):
        violations.append({"mechanism": mech, "rule": rule, "detail": detail[:700], "witness": wit(extra)})

    # the sync side is the baseline: a rejection there is foreign to C05
    if rejs is not None:
        counters["foreign_aborts"] += 1
        counters.setdefault("foreign_rules", [])
        if rejs.rule not in counters["foreign_rules"]:
            counters["foreign_rules"].append(rejs.rule)
        return
    if rejt is not None:
        viol("async-twin-deviates-from-reference:" + rejt.rule, "C05.twin-vs-reference", rejt.detail,
             {"trace": F.trace_excerpt(lt, rejt.n)})
        return
    for rule, detail, n in getattr(ckt, "softs", []):
        viol("async-twin:" + rule, rule if rule.startswith("C05.") else "C05.twin-vs-reference", detail, {"trace": F.trace_excerpt(lt, n)})
        return
    bad_warn = [w for w in rt.warnings if "never awaited" in w[1]]
    if bad_warn:
        viol("coroutine-never-awaited", "C05.sanitizer", str(bad_warn[:2]))
        return
    pend = [m for m in rt.asyncio_log if "pending" in m or "never retrieved" in m]
    if pend or rt.unraisable:
        viol("pending-task-or-unraisable", "C05.sanitizer", str((pend + rt.unraisable)[:2]))
        return
    init_failed = any(e["k"] == "step" and e["op"] in ("construct", "activate") and e["phase"] == "end" and e.get("exc")
                      for e in ls + lt)
    if not case["nested"] and not init_failed:
        a, b = summarize(ls), summarize(lt)
        counters["twin_steps_compared"] += min(len(a), len(b))
        if len(a) != len(b):
            viol("twin-step-count-differs", "C05.twin-equivalence", f"{len(a)} vs {len(b)} steps")
            return
        for i, (x, y) in enumerate(zip(a, b)):
            if x["out"] and x["out"][0] == "exc" and x["out"] == y["out"] and x["probe"] == y["probe"] and set(x["cbs"]) <= set(y["cbs"]):
                continue   # H4: siblings of the failing callback may run on the async engine only
            if x != y:
                what = [k_ for k_ in ("out", "probe", "cbs") if x[k_] != y[k_]]
                viol("twin-differs:" + "+".join(what), "C05.twin-equivalence",
                     f"step {i} ({x['op']}): sync={ {k_: x[k_] for k_ in what} } async={ {k_: y[k_] for k_ in what} }"[:900])
                return
    else:
        counters["twin_steps_compared"] += 0
    suspended = any(e["k"] == "cb_begin" and case["twin"].spec["cbs"].get(e["cb"], {}).get("script", {}).get("yields") and
                    case["twin"].spec["cbs"][e["cb"]]["async"] for e in lt)
    sigs.add(F.h((case["mode"], case["driver"], case["nested"], fault is not None,
                  any(g.get("async") for g in case["twin"].spec["guards"].values()), suspended)))
    if len(samples) < 2 and suspended:
        samples.append({"mode": case["mode"], "driver": case["driver"], "twin_source": rt.source[:2500],
                        "steps": case["sync"].steps[:5], "twin_trace_excerpt": F.trace_excerpt(lt, None, 0, 0)[-10:]})


def plan(tier, seed):
    return F.std_plan(tier, seed, 2560, 30000) + [{"expr_tail": True, "seed": seed * 17 + 3, "count": 400 if tier == "quick" else 6000}]


def run_expr_tail(desc):
    """Coroutine guards inside boolean expressions, in the one position where the library awaits them
    (tail of a top-level and/or chain on a machine that runs on the async engine): must equal Python's
    evaluation, i.e. what the synchronous twin of the guard would give."""
    import random

    from props import c08

    rng = random.Random(desc["seed"])
    counters = {"fired": 0, "blocked": 0, "readorder_compared": 0, "invalid_rejected": 0, "shortcircuit_cases": 0}
    violations, sigs = [], set()
    for i in range(desc["count"]):
        case = c08.gen_async_last_case(rng)
        c08.run_case(case, counters, violations, sigs, [])
        sigs.add(F.h(("expr-tail", case["conds"] and "cond" or "unless", X_skel(case))))
    out_v = []
    for v in violations[:2]:
        v["rule"] = "C05.coroutine-guard-in-expression"
        out_v.append(v)
    return {"evaluations": desc["count"], "signatures": sorted(sigs), "samples": [],
            "counters": {"expr_tail_cases": desc["count"], "expr_tail_sends": counters["fired"] + counters["blocked"]},
            "violations": out_v}


def X_skel(case):
    from vmon import exprgen

    e = (case["conds"] or case["unlesses"])[0]
    return exprgen.skeleton(e["tree"])


def run_shard(desc):
    import random

    if desc.get("expr_tail"):
        return run_expr_tail(desc)

    rng = random.Random(desc["seed"])
    counters = {"runs": 0, "twin_pairs": 0, "twin_steps_compared": 0, "suspensions": 0, "foreign_aborts": 0}
    violations, sigs, samples = [], set(), []
    for i in range(desc["count"]):
        case = make_case(rng, i)
        if case is None:
            continue
        try:
            run_pair(case, counters, violations, sigs, samples)
        except Exception:  # noqa: BLE001
            import traceback

            counters["harness_errors"] = counters.get("harness_errors", 0) + 1
            if counters["harness_errors"] <= 2:
                violations.append({"mechanism": "harness-error", "rule": "harness", "detail": traceback.format_exc()[-1200:],
                                   "witness": {"scenario": case["twin"].to_json()}})
    byk = {}
    for v in violations:
        byk.setdefault(v["mechanism"], []).append(v)
    violations = [v for vs in byk.values() for v in sorted(vs, key=lambda x: len(json.dumps(x, default=str)))[:2]]
    out = {"evaluations": counters["runs"], "signatures": sorted(sigs), "samples": samples, "counters": counters,
           "violations": violations}
    if counters["foreign_aborts"] > 0.25 * max(1, counters["twin_pairs"]):
        out["inconclusive"] = [f"sync baseline rejected in {counters['foreign_aborts']} of {counters['twin_pairs']} pairs"]
    return out


def replay(witness):
    w = witness["witness"]
    sc = Scenario(w["scenario"]["spec"], w["scenario"]["steps"], w["scenario"].get("driver", "sync"))
    run = Run(sc, fault=w.get("fault"))
    run.rec.guard_yields = w.get("guard_yields", {})
    log = run.execute()
    rej, ck = check_log(sc.spec, log)
    violations = []
    if rej is not None:
        violations.append({"mechanism": rej.rule, "rule": rej.rule, "detail": rej.detail, "witness": {}})
    for rule, detail, n in getattr(ck, "softs", []):
        violations.append({"mechanism": rule, "rule": rule, "detail": detail, "witness": {}})
    return {"evaluations": 1, "violations": violations, "counters": dict(ck.stats)}
