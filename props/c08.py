"""C08 — guards: cond/unless conjunction and Python-faithful boolean expressions.

Monitor: a generated machine with one guarded self-transition is instantiated against the real
library; for several valuations the event is sent and the observation (fired / blocked /
exception type, plus the order in which guard names were read through recording
properties/methods) is compared with Python's own evaluator run over a recording namespace.
"""

from __future__ import annotations

import hashlib
import random
import warnings

from vmon import exprgen as X

META = {
    "level": "exploration",
    "technique": "differential runtime monitoring against Python's evaluator over a generated grammar",
    "rule": (
        "cases = (guard entry lists, provider layout, spelling) drawn from a seeded tree generator "
        "(depth<=5; not/and/or/6 comparison ops incl. chains; literals; names on machine/model/"
        "listener as property/method/attribute/coroutine; random library spelling), each run on "
        "several valuations; plus invalid expressions obtained by mutation. "
        "decorator guards (@event.cond/unless) on an event of two transitions evaluated on the second, machine and model instantiated through subclasses that override nothing, invalid / unknown entries placed next to valid ones (same list or the other keyword). "
        "distinct_nontrivial = "
        "distinct (operator skeleton, spelling class) with >=2 operators for which a short-circuit "
        "was actually observed in at least one valuation."
    ),
    "assumptions": [
        "guards are pure readers of the valuation table",
        "order/short-circuit ACROSS entries of one cond/unless list is not constrained; only the outcome is judged there",
        "chained comparisons may read a middle operand twice (pinned by the repository's strict-xfail test): read order compared on first occurrences",
        "out-of-grammar but valid Python (arithmetic, `is`, calls) is only required to be rejected at instantiation by some exception",
        "negative numeric literals are outside the documented grammar and are not generated",
    ],
    "must_observe": ["fired", "blocked", "readorder_compared", "invalid_rejected", "shortcircuit_cases"],
    "shard_timeout": {"quick": 900, "thorough": 3000},
    "max_samples": 6,
}

VALUES = {
    "T": True, "F": False, "0": 0, "1": 1, "2": 2, "3": 3, "1.5": 1.5, "E": "", "a": "a",
    "b": "b", "N": None, "L0": [], "L1": [0], "ab": "ab",
}


class Falsy:
    def __bool__(self):
        return False

    def __repr__(self):
        return "Falsy()"


class Truthy:
    def __bool__(self):
        return True

    def __repr__(self):
        return "Truthy()"


class Len0:
    def __len__(self):
        return 0

    def __repr__(self):
        return "Len0()"


VALUES.update({"Falsy": Falsy(), "Truthy": Truthy(), "Len0": Len0()})
BOOL_CODES = ["T", "F", "0", "1", "E", "a", "N", "L0", "L1", "Falsy", "Truthy", "Len0", "1.5", "2"]
CMP_CODES = ["0", "1", "2", "3", "1.5", "a", "b", "ab", "E", "N", "T", "F"]

_uid = [0]


def uid():
    _uid[0] += 1
    return _uid[0]


class Env:
    def __init__(self):
        self.vals = {}
        self.log = []

    def read(self, name, provider):
        self.log.append(name)
        return VALUES[self.vals[(name, provider)]]


# --------------------------------------------------------------------------- case generation
def gen_case(rng):
    nnames = rng.choice([1, 2, 3, 3, 4, 5])
    names = rng.sample(X.NAME_POOL, nnames)
    reserved = None
    if rng.random() < 0.1:
        # a name the MACHINE reserves (a state id, send, states) is an ordinary name on the model / a listener
        reserved = rng.choice(["s0", "send", "states", "final_states"])
        names[rng.randrange(len(names))] = reserved
    layout = {}
    use_async = rng.random() < 0.06
    for n in names:
        kind = rng.choice(["prop", "prop", "method", "method", "attr", "method_kw"])
        r = rng.random()
        if r < 0.6:
            provs = ["sm"]
        elif r < 0.78:
            provs = ["model"]
        elif r < 0.92:
            provs = ["l0"]
        else:
            provs = rng.sample(["sm", "model", "l0"], 2)
            provs.sort(key=["sm", "model", "l0"].index)
        if n == reserved:
            provs = [p for p in provs if p != "sm"] or [rng.choice(["model", "l0"])]
            kind = rng.choice(["method", "prop", "method_kw"])
        layout[n] = {"kind": kind, "providers": provs}
    if use_async:
        n = rng.choice(names)
        layout[n]["kind"] = "amethod"
    multi = [n for n in names if len(layout[n]["providers"]) > 1]
    cmp_names = [n for n in names if n not in multi] or None
    depth = rng.choice([1, 2, 2, 3, 3, 4, 5])
    style = {"p_sym": rng.choice([0.0, 0.3, 0.7, 1.0]), "p_tight": rng.choice([0.0, 0.3, 0.8])}

    def entry():
        r = rng.random()
        if r < 0.78:
            if cmp_names is None:
                t = X.gen_tree(rng, names, min(depth, 2), names)
                # avoid multi-provider names as comparison operands (conjunction of values is not a value)
                for node in t.walk():
                    if node.kind == "cmp":
                        for i, kid in enumerate(node.kids):
                            if kid.kind == "name":
                                node.kids[i] = X.gen_const(rng, for_cmp=True)
            else:
                t = X.gen_tree(rng, names, depth, cmp_names)
            return {"type": "expr", "tree": t, "lib": X.to_lib(t, rng, style), "py": X.to_python(t)}
        n = rng.choice(names)
        lay = layout[n]
        if r < 0.84 or lay["providers"] != ["sm"] or lay["kind"] in ("attr", "amethod"):
            return {"type": "expr", "tree": X.T("name", val=n), "lib": n, "py": n}
        if lay["kind"] == "prop":
            return {"type": "propobj", "name": n, "py": n}
        return {"type": "func", "name": n, "py": n}

    r = rng.random()
    if r < 0.7:
        conds, unlesses = [entry()], []
    elif r < 0.8:
        conds, unlesses = [], [entry()]
    else:
        conds = [entry() for _ in range(rng.choice([1, 2, 3]))]
        unlesses = [entry() for _ in range(rng.choice([0, 1, 2]))]
        if rng.random() < 0.97:
            # the same guard under cond and unless (contradictory) or twice in different
            # spellings (redundant) trips a known de-duplication defect: keep it rare so the
            # rest of the workload is evaluated
            seen, keep_c, keep_u = {}, [], []
            for tag, lst, keep in (("c", conds, keep_c), ("u", unlesses, keep_u)):
                for e in lst:
                    f = flat_form(e)
                    if f in seen and seen[f] != (tag, _src(e)):
                        continue
                    seen.setdefault(f, (tag, _src(e)))
                    keep.append(e)
            conds, unlesses = keep_c, keep_u
    two_src = rng.random() < 0.25
    via_any = (not two_src) and rng.random() < 0.2
    deco = None
    if two_src and rng.random() < 0.7:
        # a guard attached with the decorator syntax (@go.cond / @go.unless) to an event made of two
        # transitions: it must keep its polarity on every transition of the event
        dn = rng.choice([n for n in X.NAME_POOL if n not in names])
        names = names + [dn]
        layout[dn] = {"kind": rng.choice(["method", "method_kw"]), "providers": ["sm"], "deco": True}
        deco = {"type": "expr", "tree": X.T("name", val=dn), "lib": dn, "py": dn, "deco": True}
        (conds if rng.random() < 0.5 else unlesses).append(deco)
    nval = 4
    cmp_used = set()
    for e in conds + unlesses:
        if e["type"] == "expr":
            for node in e["tree"].walk():
                if node.kind == "cmp":
                    for kid in node.kids:
                        if kid.kind == "name":
                            cmp_used.add(kid.val)
    valuations = []
    for _ in range(nval):
        v = {}
        orderable = rng.random() < 0.7
        for n in names:
            for p in layout[n]["providers"]:
                if n in cmp_used:
                    pool = ["0", "1", "2", "3", "1.5"] if orderable else CMP_CODES
                else:
                    pool = BOOL_CODES
                v[f"{n}@{p}"] = rng.choice(pool)
        valuations.append(v)
    return {
        "names": names, "layout": layout, "conds": conds, "unlesses": unlesses,
        "valuations": valuations, "style": style, "via_any": via_any, "two_src": two_src,
        # (not together with from_.any(): defining a subclass re-expands any() on the State objects it
        # shares with the base class - the W8 family recorded under C16)
        "subclass_inst": (not via_any) and rng.random() < 0.2,
    }


def gen_async_last_case(rng):
    """Coroutine guard name in tail position of a top-level and/or chain, on a machine that runs on the
    async engine anyway (it has a coroutine action): here the library does await the guard, so the
    expression must behave exactly like Python's (no known finding applies)."""
    names = rng.sample(X.NAME_POOL, rng.choice([2, 3, 4]))
    layout = {n: {"kind": rng.choice(["prop", "method", "method_kw"]), "providers": ["sm"]} for n in names}
    layout[names[-1]]["kind"] = "amethod"
    sync = names[:-1]
    op = rng.choice(["and", "or"])
    kids = []
    for _ in range(rng.choice([1, 1, 2])):
        n = X.T("name", val=rng.choice(sync))
        r = rng.random()
        kids.append(X.T("not", [n]) if r < 0.3 else (X.T("cmp", [n, X.gen_const(rng, for_cmp=True)], ops=[rng.choice(X.CMP_OPS)]) if r < 0.45 else n))
    t = X.T(op, kids + [X.T("name", val=names[-1])])
    style = {"p_sym": rng.choice([0.0, 0.5, 1.0]), "p_tight": rng.choice([0.0, 0.5])}
    e = {"type": "expr", "tree": t, "lib": X.to_lib(t, rng, style), "py": X.to_python(t)}
    cmp_used = {k_.val for n_ in t.walk() if n_.kind == "cmp" for k_ in n_.kids if k_.kind == "name"}
    valuations = []
    for _ in range(4):
        valuations.append({f"{n}@sm": rng.choice(["0", "1", "2", "3"] if n in cmp_used else BOOL_CODES) for n in names})
    conds, unlesses = ([e], []) if rng.random() < 0.7 else ([], [e])
    return {"names": names, "layout": layout, "conds": conds, "unlesses": unlesses, "valuations": valuations,
            "style": style, "via_any": False, "strict_async": True}


def render(case, k):
    lay = case["layout"]
    L = [f"class M_{k}(StateMachine):", "    s0 = State(initial=True)"]

    def member(n, prov, indent="    "):
        kind = lay[n]["kind"]
        if kind == "prop":
            return [f"{indent}@property", f"{indent}def {n}(self):", f"{indent}    return ENV.read({n!r}, {prov!r})"]
        if kind == "method":
            return [f"{indent}def {n}(self):", f"{indent}    return ENV.read({n!r}, {prov!r})"]
        if kind == "method_kw":
            return [f"{indent}def {n}(self, event, **kwargs):", f"{indent}    return ENV.read({n!r}, {prov!r})"]
        if kind == "amethod":
            return [f"{indent}async def {n}(self):", f"{indent}    return ENV.read({n!r}, {prov!r})"]
        return [f"{indent}{n} = None"]

    for n in case["names"]:
        if "sm" in lay[n]["providers"] and not lay[n].get("deco"):
            L += member(n, "sm")

    def ent(e):
        if e["type"] == "expr":
            return repr(e["lib"])
        return e["name"]

    kw = []
    kconds = [e for e in case["conds"] if not e.get("deco")]
    kunless = [e for e in case["unlesses"] if not e.get("deco")]
    if kconds:
        kw.append("cond=[" + ", ".join(ent(e) for e in kconds) + "]" if len(kconds) != 1 else "cond=" + ent(kconds[0]))
    if kunless:
        kw.append("unless=[" + ", ".join(ent(e) for e in kunless) + "]" if len(kunless) != 1 else "unless=" + ent(kunless[0]))
    on = "on='fire_async'" if case.get("strict_async") else "on=lambda: 'FIRED'"
    if case.get("via_any"):
        # the same guarded self-transition declared through from_.any() (copied per source state)
        L.append("    go = s0.from_.any(" + ", ".join(kw + [on]) + ")")
    elif case.get("two_src"):
        L.insert(2, "    s1 = State()")
        L.append("    mv = s0.to(s1)")
        L.append("    go = s0.to.itself(" + ", ".join(kw + [on]) + ") | s1.to.itself(" + ", ".join(kw + [on]) + ")")
        for tag, lst in (("cond", case["conds"]), ("unless", case["unlesses"])):
            for e in lst:
                if e.get("deco"):
                    L.append(f"    @go.{tag}")
                    L += member(e["lib"], "sm")
    else:
        L.append("    go = s0.to.itself(" + ", ".join(kw + [on]) + ")")
    if case.get("strict_async"):
        L += ["    async def fire_async(self):", "        return 'FIRED'"]
    L.append("")
    L.append(f"class Mod_{k}:")
    L.append("    state = None")
    for n in case["names"]:
        if "model" in lay[n]["providers"]:
            L += member(n, "model")
    L.append("")
    L.append(f"class Lis_{k}:")
    L.append("    pass")
    for n in case["names"]:
        if "l0" in lay[n]["providers"]:
            L += member(n, "l0")
    return "\n".join(L) + "\n"


class RecNS(dict):
    def __init__(self, case, env, valuation):
        super().__init__()
        self.case, self.env, self.valuation = case, env, valuation

    def __getitem__(self, name):
        lay = self.case["layout"].get(name)
        if lay is None:
            raise KeyError(name)
        v = None
        for p in lay["providers"]:
            if lay["kind"] != "attr":
                self.env.pylog.append(name)
            v = VALUES[self.valuation[f"{name}@{p}"]]
            if not v:
                break
        return v


def py_eval(case, entry, valuation, env):
    ns = RecNS(case, env, valuation)
    try:
        return ("val", bool(eval(compile(entry["py"], "<py>", "eval"), {"__builtins__": {}}, ns)))
    except Exception as err:  # noqa: BLE001
        return ("exc", type(err).__name__)


def first_occurrences(seq):
    out = []
    for x in seq:
        if x not in out:
            out.append(x)
    return out


def flat_form(e):
    """Token sequence of an entry with parentheses dropped (grouping ignored)."""
    import re as _re

    return " ".join(_re.findall(r"[A-Za-z_][A-Za-z_0-9]*|[<>=!]=|[<>]|'[^']*'|[0-9.]+", e["py"]))


def _src(e):
    return (e["type"] == "expr", e.get("lib", e.get("name")))


def dup_classes(case):
    fc = {flat_form(e) for e in case["conds"]}
    fu = {flat_form(e) for e in case["unlesses"]}
    both = bool(fc & fu)

    def spelled_differently(entries):
        seen = {}
        for e in entries:
            f = flat_form(e)
            if f in seen and seen[f] != _src(e):
                return True
            seen.setdefault(f, _src(e))
        return False

    within = spelled_differently(case["conds"]) or spelled_differently(case["unlesses"])
    return both, within


def classify_mismatch(case, entries):
    """Mechanism key for a mismatch: by input class, never by values."""
    lay = case["layout"]
    composite_async = False
    literal_ops = False
    for e in entries:
        if e["type"] != "expr":
            continue
        t = e["tree"]
        if any(
            lay[n]["kind"] == "amethod" and (t.kind != "name" or len(lay[n]["providers"]) > 1)
            for n in X.names_in(t)
        ):
            composite_async = True
        if any((" v " in s) or ("^" in s) or ("!" in s) for s in X.string_consts(t)):
            literal_ops = True
    return composite_async, literal_ops


def run_case(case, counters, violations, sigs, samples, src_only=False):
    from statemachine import State, StateMachine
    from statemachine.exceptions import InvalidDefinition, TransitionNotAllowed

    k = uid()
    env = Env()
    env.pylog = []
    src = render(case, k)
    ns = {"State": State, "StateMachine": StateMachine, "ENV": env, "__name__": "vmon_c08"}
    entries = case["conds"] + case["unlesses"]
    composite_async, literal_ops = classify_mismatch(case, entries)
    same_in_both, same_within = dup_classes(case)
    single = len(entries) == 1 and entries[0]["type"] == "expr"

    def viol(mech, rule, detail):
        symptom = mech.split(":")[0]
        if case.get("strict_async"):
            mech = "coroutine-guard-in-tail-position-of-expression:" + symptom
        elif same_in_both:
            mech = "same-guard-under-cond-and-unless:" + symptom
        elif same_within:
            mech = "guard-entries-with-identical-flattened-form:" + symptom
        elif composite_async:
            mech = "async-name-in-composite-expression:" + symptom
        elif literal_ops:
            mech = "operator-char-inside-string-literal:" + symptom
        violations.append({
            "mechanism": mech, "rule": rule, "detail": detail,
            "witness": {"source": src, "conds": [e.get("lib", e.get("name")) for e in case["conds"]],
                        "unlesses": [e.get("lib", e.get("name")) for e in case["unlesses"]],
                        "py": [e["py"] for e in entries], "layout": case["layout"],
                        "valuations": case["valuations"]},
        })

    with warnings.catch_warnings():
        warnings.simplefilter("ignore")
        try:
            exec(compile(src, f"<c08-{k}>", "exec"), ns)
            M, Mod, Lis = ns[f"M_{k}"], ns[f"Mod_{k}"], ns[f"Lis_{k}"]
            if case.get("subclass_inst"):
                # the machine (and the model) actually used are subclasses that override nothing: names,
                # property objects and functions of the guards are found through inheritance
                M = type(f"Sub_{k}", (M,), {})
                Mod = type(f"SubMod_{k}", (Mod,), {})
                counters["inherited_guard_cases"] = counters.get("inherited_guard_cases", 0) + 1
            # initial values so that registration-time getattr() on properties works
            for n in case["names"]:
                for p in case["layout"][n]["providers"]:
                    env.vals[(n, p)] = case["valuations"][0][f"{n}@{p}"]
            model, lis = Mod(), Lis()
            sm = M(model, listeners=[lis])
            if case.get("two_src"):
                sm.send("mv")        # the guards are evaluated on the event's SECOND transition
                counters["second_transition_cases"] = counters.get("second_transition_cases", 0) + 1
                counters["decorator_guard_cases"] = counters.get("decorator_guard_cases", 0) + any(e.get("deco") for e in entries)
        except Exception as err:  # noqa: BLE001
            counters["valid_rejected"] = counters.get("valid_rejected", 0) + 1
            nospace = any(
                e["type"] == "expr" and e["tree"].kind != "name" and " " not in e["lib"] and "!" not in e["lib"]
                for e in entries
            )
            mech = "valid-expression-rejected:" + type(err).__name__
            if nospace and len(entries) == 1 and isinstance(err, InvalidDefinition) and "Did not found name" in str(err):
                mech = "valid-expression-rejected:nospace-single-entry"
            viol(mech, "C08.instantiation", f"{type(err).__name__}: {err}")
            return
        objs = {"sm": sm, "model": model, "l0": lis}
        any_sc = False
        for valuation in case["valuations"]:
            for n in case["names"]:
                for p in case["layout"][n]["providers"]:
                    env.vals[(n, p)] = valuation[f"{n}@{p}"]
                    if case["layout"][n]["kind"] == "attr":
                        setattr(objs[p], n, VALUES[valuation[f"{n}@{p}"]])
            # oracle
            per_entry = []
            for e in case["conds"]:
                env.pylog = []
                per_entry.append(("cond", py_eval(case, e, valuation, env), list(env.pylog)))
            for e in case["unlesses"]:
                env.pylog = []
                per_entry.append(("unless", py_eval(case, e, valuation, env), list(env.pylog)))
            excs = {r[1] for (_k, r, _l) in per_entry if r[0] == "exc"}
            failing = any(
                r[0] == "val" and ((kind == "cond" and not r[1]) or (kind == "unless" and r[1]))
                for (kind, r, _l) in per_entry
            )
            if excs:
                allowed = {"exc:" + x for x in excs}
                if failing:
                    allowed.add("blocked")
            else:
                allowed = {"blocked"} if failing else {"fired"}
            # observe
            env.log = []
            try:
                res = sm.send("go")
                got = "fired" if res == "FIRED" else f"returned:{res!r}"
            except TransitionNotAllowed:
                got = "blocked"
            except Exception as err:  # noqa: BLE001
                got = "exc:" + type(err).__name__
            counters["evaluations_sent"] = counters.get("evaluations_sent", 0) + 1
            counters["fired"] += got == "fired"
            counters["blocked"] += got == "blocked"
            counters["raised"] = counters.get("raised", 0) + got.startswith("exc:")
            if got not in allowed:
                viol("outcome-differs-from-python:" + ("multi-entry" if not single else "single-expression"),
                     "C08.python-faithful", f"valuation={valuation} python={sorted(allowed)} library={got} reads={env.log}")
                return
            if single:
                pylog = per_entry[0][2]
                liblog = [n for n in env.log]
                t = entries[0]["tree"]
                total_names = len([n for n in X.names_in(t) if case["layout"][n]["kind"] != "attr"])
                if len(pylog) < total_names:
                    any_sc = True
                if X.has_chain(t):
                    ok = first_occurrences(pylog) == first_occurrences(liblog)
                else:
                    ok = pylog == liblog
                counters["readorder_compared"] += 1
                if not ok:
                    viol("readorder-differs-from-python", "C08.short-circuit-left-to-right",
                         f"valuation={valuation} python_reads={pylog} library_reads={liblog}")
                    return
    if single:
        t = entries[0]["tree"]
        nops = X.n_operators(t)
        if nops >= 2 and any_sc:
            cls = "sym%.1f-tight%.1f" % (case["style"]["p_sym"], case["style"]["p_tight"])
            sigs.add(hashlib.sha1((X.skeleton(t) + cls).encode()).hexdigest()[:12])
            counters["shortcircuit_cases"] += 1
    if len(samples) < 2 and single and X.n_operators(entries[0]["tree"]) >= 3:
        samples.append({"library_spelling": entries[0]["lib"], "python": entries[0]["py"],
                        "layout": case["layout"], "valuations": case["valuations"][:2]})


# --------------------------------------------------------------------------- invalid expressions
def gen_invalid(rng):
    names = rng.sample(X.NAME_POOL, 3)
    style = {"p_sym": rng.choice([0.0, 0.5, 1.0]), "p_tight": rng.choice([0.0, 0.5])}
    t = X.gen_tree(rng, names, rng.choice([1, 2, 3]))
    for node in t.walk():  # no string literals: keeps the independent parse check exact
        if node.kind == "const" and isinstance(node.val, str):
            node.val = 1
    s = X.to_lib(t, rng, style)
    kind = rng.choice(["unbalanced", "dangling", "empty", "blank", "juxtaposed", "unknown", "unknown", "double-op"])
    if kind == "unbalanced":
        s = rng.choice(["(" + s, s + ")", s.replace(")", "", 1) if ")" in s else s + ")"])
    elif kind == "dangling":
        s = rng.choice([s + " and", s + " or", "and " + s, s + " ^", s + " !", s + " ==", "v " + s + " v"])
    elif kind == "empty":
        s = ""
    elif kind == "blank":
        s = rng.choice([" ", "   ", "\t"])
    elif kind == "juxtaposed":
        s = s + " " + rng.choice(names)
    elif kind == "double-op":
        s = rng.choice([s + " and or " + names[0], s + " ^ ^ " + names[0], s + " == == 1"])
    unknown = None
    if kind == "unknown":
        unknown = "zz_missing"
        pick = rng.choice(names)
        if pick in X.names_in(t):
            for node in t.walk():
                if node.kind == "name" and node.val == pick:
                    node.val = unknown
            s = X.to_lib(t, rng, style)
        else:
            s = s + " and " + unknown
    # a valid entry next to the invalid one (same list, or the other keyword): one entry that resolves
    # must not make the registry accept the other
    return {"expr": s, "kind": kind, "names": names, "unknown": unknown,
            "companion": rng.choice([None, None, "before", "after", "other_kw", "method_before"])}


OUT_OF_GRAMMAR = ["x + 1 > 1", "x is None", "x in y", "f(x)", "x.y", "x if y else p", "[x]", "x > -1"]


def run_invalid(inv, counters, violations, where):
    from statemachine import State, StateMachine
    from statemachine.exceptions import InvalidDefinition, TransitionNotAllowed

    expr = inv["expr"]
    if inv["kind"] != "unknown" and X.independent_parse_ok(expr) and expr.strip():
        counters["invalid_skipped_actually_valid"] = counters.get("invalid_skipped_actually_valid", 0) + 1
        return
    k = uid()
    lines = [f"class M_{k}(StateMachine):", "    s0 = State(initial=True)"]
    for n in list(inv["names"]) + ["x", "y", "p", "f"]:
        lines.append(f"    {n} = 1")
    comp = inv.get("companion")
    if comp == "before":
        decl = f"{where}=['x', {expr!r}]"
    elif comp == "after":
        decl = f"{where}=[{expr!r}, 'y and p']"
    elif comp == "other_kw":
        decl = f"{where}={expr!r}, {'unless' if where == 'cond' else 'cond'}='x'"
    elif comp == "method_before":
        lines.append("    def okay(self):\n        return True")
        decl = f"{where}=[okay, {expr!r}]"
    else:
        decl = f"{where}={expr!r}"
    if comp:
        counters["invalid_with_valid_companion"] = counters.get("invalid_with_valid_companion", 0) + 1
    lines.append(f"    go = s0.to.itself({decl})")
    src = "\n".join(lines) + "\n"
    ns = {"State": State, "StateMachine": StateMachine, "__name__": "vmon_c08"}
    stage = "class"
    try:
        with warnings.catch_warnings():
            warnings.simplefilter("ignore")
            exec(compile(src, f"<c08i-{k}>", "exec"), ns)
            stage = "instantiate"
            sm = ns[f"M_{k}"]()
            stage = "send"
            try:
                sm.send("go")
                outcome = "accepted-and-ran"
            except TransitionNotAllowed:
                outcome = "accepted-and-ran"
            except Exception as err:  # noqa: BLE001
                outcome = "error-at-send:" + type(err).__name__
    except InvalidDefinition:
        outcome = "InvalidDefinition@" + stage
    except Exception as err:  # noqa: BLE001
        outcome = type(err).__name__ + "@" + stage
    counters["invalid_cases"] = counters.get("invalid_cases", 0) + 1
    if inv["kind"] == "out-of-grammar":
        ok = "@class" in outcome or "@instantiate" in outcome
    else:
        ok = outcome.startswith("InvalidDefinition@")
    if ok:
        counters["invalid_rejected"] += 1
    else:
        violations.append({
            "mechanism": f"invalid-expression({inv['kind']})-{outcome}", "rule": "C08.invalid-rejected-at-instantiation",
            "detail": f"expr={expr!r} where={where} outcome={outcome}",
            "witness": {"source": src, "invalid": inv, "where": where},
        })


def plan(tier, seed):
    n = 16 if tier == "quick" else 64
    per = 1500 if tier == "quick" else 4000
    return [{"seed": seed * 100003 + i, "count": per, "invalid": per // 6} for i in range(n)]


def run_shard(desc):
    rng = random.Random(desc["seed"])
    counters = {"fired": 0, "blocked": 0, "readorder_compared": 0, "invalid_rejected": 0, "shortcircuit_cases": 0}
    violations, sigs, samples = [], set(), []
    n = 0
    from vmon.render import release_library_caches

    for _ in range(desc["count"]):
        case = gen_case(rng) if rng.random() > 0.06 else gen_async_last_case(rng)
        if case.get("strict_async"):
            counters["async_tail_cases"] = counters.get("async_tail_cases", 0) + 1
        run_case(case, counters, violations, sigs, samples)
        n += 1
        if n % 50 == 0:
            release_library_caches()
    for _ in range(desc["invalid"]):
        run_invalid(gen_invalid(rng), counters, violations, rng.choice(["cond", "unless"]))
        n += 1
    for e in OUT_OF_GRAMMAR:
        run_invalid({"expr": e, "kind": "out-of-grammar", "names": [], "unknown": None}, counters, violations, "cond")
        n += 1
    byk = {}
    for v in violations:
        byk.setdefault(v["mechanism"], []).append(v)
    violations = [v for vs in byk.values() for v in vs[:2]]
    return {"evaluations": n, "signatures": sorted(sigs), "samples": samples, "counters": counters,
            "violations": violations}


def replay(witness):
    """Re-executes the recorded class source + valuations under the same differential monitor."""
    w = witness["witness"]
    counters = {"fired": 0, "blocked": 0, "readorder_compared": 0, "invalid_rejected": 0, "shortcircuit_cases": 0}
    violations = []
    if "invalid" in w:
        run_invalid(w["invalid"], counters, violations, w.get("where", "cond"))
        return {"evaluations": 1, "violations": violations, "counters": counters}
    # rebuild a case from the witness: parse python spellings back into trees is unnecessary —
    # reuse strings directly through a minimal tree wrapper
    import ast

    def tree_from_py(py):
        def conv(n):
            if isinstance(n, ast.Name):
                return X.T("name", val=n.id)
            if isinstance(n, ast.Constant):
                return X.T("const", val=n.value)
            if isinstance(n, ast.UnaryOp):
                return X.T("not", [conv(n.operand)])
            if isinstance(n, ast.BoolOp):
                return X.T("and" if isinstance(n.op, ast.And) else "or", [conv(v) for v in n.values])
            if isinstance(n, ast.Compare):
                m = {ast.Eq: "==", ast.NotEq: "!=", ast.Lt: "<", ast.LtE: "<=", ast.Gt: ">", ast.GtE: ">="}
                return X.T("cmp", [conv(n.left)] + [conv(c) for c in n.comparators], ops=[m[type(o)] for o in n.ops])
            raise ValueError(n)
        return conv(ast.parse(py, mode="eval").body)

    pys = list(w["py"])
    conds = [{"type": "expr", "lib": lib, "py": pys.pop(0), "tree": None} for lib in w["conds"]]
    unl = [{"type": "expr", "lib": lib, "py": pys.pop(0), "tree": None} for lib in w["unlesses"]]
    for e in conds + unl:
        e["tree"] = tree_from_py(e["py"])
    case = {"names": list(w["layout"]), "layout": w["layout"], "conds": conds, "unlesses": unl,
            "valuations": w["valuations"], "style": {"p_sym": 0, "p_tight": 0}}
    run_case(case, counters, violations, set(), [])
    return {"evaluations": 1, "violations": violations, "counters": counters}
