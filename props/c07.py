"""C07 — callbacks receive exactly the parameters they declare.

Monitor: generated callbacks record their own ``locals()``; the observation is compared with a
reference binder (vmon/binder.py) that implements two readings of the rule and judges only call
shapes on which they agree. Reserved built-in names passed by the user, kwargs forwarded through an
event used as a callback, and pairs of callbacks sharing a qualified name are separate workloads.
"""

from __future__ import annotations

import functools
import random
import warnings

from vmon import binder as B
from vmon.family import h

META = {
    "level": "exploration",
    "technique": "runtime recording of callback locals() vs a two-reading reference binder",
    "rule": (
        "cases = (signature, attachment kind, call shape): signatures over every legal ordering of "
        "positional-only / positional-or-keyword / defaulted / *args / keyword-only / **kwargs "
        "parameters (0-3 each) with names drawn from plain, user-keyword and built-in names; attached as "
        "bound method (machine/model/listener), free function, class-body function, functools.partial "
        "attribute, coroutine function; call shapes 0-5 positionals x subsets of user and reserved "
        "keywords; kwargs forwarded through an event-as-callback; pairs of callbacks with equal "
        "__qualname__ and different signatures. "
        "callbacks also in guard roles (cond / unless / validators, inside not/and/or expressions and entry lists), user keyword values None/falsy, wrapped pairs behind a stack of 1-3 decorators, one function plain and as keyword-only partial. "
        "distinct_nontrivial = distinct (kind sequence, "
        "call-shape class) with surplus or missing data that were decided (both readings agree)."
    ),
    "assumptions": [
        "call shapes where the statement's reading (S) and the repository's pinned alignment table (T) disagree are undecided and skipped (counted)",
        "a positional-only parameter named like an available keyword is undecided",
        "a required parameter without any value may raise TypeError (not judged)",
    ],
    "must_observe": ["decided_bind", "reserved_checked", "forwarded_checked", "pair_checked"],
    "shard_timeout": {"quick": 900, "thorough": 3400},
}

BUILTINS = ["event_data", "machine", "event", "model", "transition", "state", "source", "target"]
PLAIN = ["a", "b", "c", "d", "e"]
UKW = ["k", "note", "n"]
ODD_UKW = ["result", "executed", "trigger_data", "args", "kwargs", "cls", "func", "value", "callback", "name", "id"]
_uid = [0]


def uid():
    _uid[0] += 1
    return _uid[0]


def gen_signature(rng):
    n_po = rng.choice([0, 0, 0, 0, 1, 2])
    n_pok = rng.choice([0, 1, 1, 2, 2, 3])
    varpos = rng.random() < 0.3
    n_kwo = rng.choice([0, 0, 0, 1, 1, 2])
    varkw = rng.random() < 0.4
    total = n_po + n_pok + n_kwo
    names = []
    while len(names) < total + 2:
        r = rng.random()
        pool = BUILTINS if r < 0.33 else (UKW if r < 0.55 else PLAIN)
        nm = rng.choice(pool)
        if nm not in names:
            names.append(nm)
    params = []
    npos = n_po + n_pok
    first_default = rng.choice([npos, npos, rng.randint(0, npos)]) if npos else 0
    for i in range(npos):
        params.append({"name": names.pop(), "kind": B.PO if i < n_po else B.POK, "default": i >= first_default})
    if varpos:
        params.append({"name": "rest", "kind": B.VARPOS, "default": False})
    for _ in range(n_kwo):
        params.append({"name": names.pop(), "kind": B.KWO, "default": rng.random() < 0.6})
    if varkw:
        params.append({"name": "extra", "kind": B.VARKW, "default": False})
    return params


def gen_shape(rng, params):
    npos = rng.choice([0, 0, 1, 1, 2, 2, 3, 4, 5])
    args = [f"P{i}" for i in range(npos)]
    pnames = [p["name"] for p in params if p["kind"] in (B.POK, B.KWO) and p["name"] not in BUILTINS]
    ukw = {}
    for nm in sorted(set(UKW + pnames + ["zz"])):
        if rng.random() < 0.35:
            # a supplied value stays a supplied value also when it is None / falsy
            ukw[nm] = "U_" + nm if rng.random() < 0.8 else rng.choice([None, None, 0, False, ""])
    if rng.random() < 0.25:
        nm = rng.choice(ODD_UKW)
        ukw[nm] = "U_" + nm
    if rng.random() < 0.04:
        ukw["key"] = "U_key"
    reserved = {}
    for nm in BUILTINS:
        if rng.random() < 0.12:
            reserved[nm] = "FAKE_" + nm
    return {"args": args, "ukw": ukw, "reserved": reserved}


KINDS = ["method", "method", "model_method", "listener_method", "func", "classfunc", "partial", "async_method", "async_partial"]


GUARD_FORMS = {      # role -> (transition keyword, expression template, value the callback must return to enable `go`)
    "cond": ("cond", "{n}", True), "unless": ("unless", "{n}", False), "validators": ("validators", "{n}", None),
    "cond_not": ("cond", "not {n}", False), "cond_bang": ("cond", "!{n}", False), "cond_and": ("cond", "{n} and yes", True),
    "cond_and_r": ("cond", "yes and {n}", True), "cond_or": ("cond", "{n} or yes", False), "unless_not": ("unless", "not {n}", True),
    "cond_paren": ("cond", "(({n}))", True), "cond_list": ("cond", "{n}", True),
}
NAMED_KINDS = ("method", "model_method", "listener_method", "async_method")


def build_source(k, params, kind, group, pair_variant=None):
    sig = B.signature_source(params)
    defs = "\n".join(f"DEF_{p['name']} = 'DEF_{p['name']}'" for p in params if p["default"])
    cbname = f"{group}_go" if kind in NAMED_KINDS else f"cb_{k}"
    if group in ("enter", "exit"):
        cbname = "on_enter_s1" if group == "enter" else "on_exit_s0"      # state-scoped convention callbacks
    guard = GUARD_FORMS.get(group)
    if guard:
        cbname = f"chk_{k}" if kind in NAMED_KINDS else cbname
    selfsig = "self" + (", " + sig if sig else "")
    body = "return NOTE(locals())"
    L = [defs, ""]
    inline = ""
    if kind == "func":
        L += [f"def {cbname}({sig}):", f"    {body}", ""]
        inline = f", {group}={cbname}"
    if kind in ("partial", "async_partial"):
        first = "first" + (", " + sig if sig else "")
        L += [f"{'async ' if kind == 'async_partial' else ''}def _raw_{k}({first}):", f"    {body}", ""]
        inline = f", {group}='pcb'"
    L += [f"class Lis_{k}:"]
    if kind == "listener_method":
        L += [f"    def {cbname}({selfsig}):", f"        {body}"]
    elif kind in ("partial", "async_partial"):
        L += [f"    pcb = functools.partial(_raw_{k}, 'BOUND')"]
    else:
        L += ["    pass"]
    L += ["", f"class Mod_{k}:", "    state = None"]
    if kind == "model_method":
        L += [f"    def {cbname}({selfsig}):", f"        {body}"]
    L += ["", f"class M_{k}(StateMachine):", "    s0 = State(initial=True)", "    s1 = State()"]
    if kind == "classfunc":
        L += [f"    def {cbname}({selfsig}):", f"        {body}"]
        inline = f", {group}={cbname}"
    if guard:
        kwname, tmpl, _ret = guard
        if kind in NAMED_KINDS or kind in ("partial", "async_partial"):
            ref = repr(tmpl.format(n=cbname if kind not in ("partial", "async_partial") else "pcb"))
        else:
            ref = cbname           # function objects cannot be part of an expression string
        if group == "cond_list":
            ref = f"['yes', {ref}]"
        inline = f", {kwname}={ref}"
        L += ["    yes = True"]
    L += [f"    go = s0.to(s1{inline})", "    back = s1.to(s0)"]
    if kind == "method":
        L += [f"    def {cbname}({selfsig}):", f"        {body}"]
    if kind == "async_method":
        L += [f"    async def {cbname}({selfsig}):", f"        {body}"]
    L += ["    def after_transition(self, event_data):", "        TD(event_data)"]
    return "\n".join(L) + "\n"


class Tagger:
    def __init__(self):
        self.sm = object()
        self.model = object()

    def tag(self, v):
        from statemachine.event import Event
        from statemachine.event_data import EventData
        from statemachine.transition import Transition

        if v is self.sm:
            return "<machine>"
        if v is self.model:
            return "<model>"
        if isinstance(v, Event):
            return f"<event:{v}>"
        if isinstance(v, EventData):
            return "<event_data>"
        if isinstance(v, Transition):
            return f"<transition:{v.source.id}->{v.target.id}>"
        if hasattr(v, "id") and hasattr(v, "transitions"):
            return f"<state:{v.id}>"
        if isinstance(v, tuple):
            return [self.tag(x) for x in v]
        if isinstance(v, dict):
            return {k: self.tag(x) for k, x in v.items()}
        return v


def expected_available(shape, event, src, dst, group):
    kw = {k: v for k, v in shape["ukw"].items()}
    state = dst if group in ("after", "enter") else src
    kw.update({
        "event_data": "<event_data>", "machine": "<machine>", "event": f"<event:{event}>", "model": "<model>",
        "transition": f"<transition:{src}->{dst}>", "state": f"<state:{state}>", "source": f"<state:{src}>",
        "target": f"<state:{dst}>",
    })
    return kw


def compare(binding, observed, params):
    """binding from the reference, observed = tagged locals()."""
    exp = {}
    for nm, v in binding["named"].items():
        exp[nm] = f"DEF_{nm}" if v == B.DEFAULT else v
    if "varpos" in binding:
        exp[next(p["name"] for p in params if p["kind"] == B.VARPOS)] = list(binding["varpos"])
    if "varkw" in binding:
        exp[next(p["name"] for p in params if p["kind"] == B.VARKW)] = dict(binding["varkw"])
    obs = {k: v for k, v in observed.items() if k not in ("self", "first")}
    return exp == obs, exp, obs


def run_one(rng, counters, violations, sigs, samples, kind=None, params=None, shapes=None, replaying=False, group=None):
    from statemachine import State, StateMachine

    k = uid()
    params = params or gen_signature(rng)
    kind = kind or rng.choice(KINDS)
    group = group or (rng.choice(["before", "on", "after"]) if rng.random() < 0.7 else rng.choice(sorted(GUARD_FORMS)))
    if group in ("before", "on", "after") and kind in NAMED_KINDS and rng.random() < 0.2:
        group = rng.choice(["enter", "exit"])
    if group in GUARD_FORMS and kind in ("async_method", "async_partial") and group not in ("cond", "unless", "validators"):
        kind = "method" if kind == "async_method" else "partial"          # coroutine names inside expressions are a recorded finding (W13), not C07's subject
    if group in GUARD_FORMS and kind in ("func", "classfunc") and group not in ("cond", "unless", "validators", "cond_list"):
        group = {"cond_not": "unless", "cond_bang": "unless", "cond_or": "unless", "unless_not": "cond"}.get(group, "cond")
    notes, tds = [], []
    tagger = Tagger()
    ret = GUARD_FORMS[group][2] if group in GUARD_FORMS else None

    def note(loc):
        notes.append({k_: tagger.tag(v) for k_, v in loc.items()})
        return ret

    def td(event_data):
        tds.append(sorted(event_data.trigger_data.kwargs))

    src = build_source(k, params, kind, group)
    ns = {"State": State, "StateMachine": StateMachine, "NOTE": note, "TD": td, "functools": functools,
          "__name__": f"vmon_c07_{k}"}
    with warnings.catch_warnings():
        warnings.simplefilter("ignore")
        exec(compile(src, f"<c07-{k}>", "exec"), ns)
        model, lis = ns[f"Mod_{k}"](), ns[f"Lis_{k}"]()
        sm = ns[f"M_{k}"](model, listeners=[lis])
    tagger.sm, tagger.model = sm, model
    shapes = shapes or [gen_shape(rng, params) for _ in range(6)]
    kinds_seq = tuple(p["kind"] + ("=" if p["default"] else "") for p in params)
    for shape in shapes:
        counters["pairs"] += 1
        avail = expected_available(shape, "go", "s0", "s1", group)
        v = B.verdict(params, shape["args"], avail)
        del notes[:], tds[:]
        sent_kw = dict(shape["ukw"])
        sent_kw.update(shape["reserved"])
        try:
            sm.go(*shape["args"], **sent_kw)
            outcome = "ok"
        except TypeError as err:
            outcome = "TypeError: " + str(err)[:120]
        except Exception as err:  # noqa: BLE001
            outcome = type(err).__name__ + ": " + str(err)[:120]
        if sm.current_state.id == "s1":
            sm.send("back")
        wit = {"source": src, "params": params, "kind": kind, "group": group, "shape": shape}
        surplus = len(shape["args"]) > len([p for p in params if p["kind"] in (B.PO, B.POK)]) or bool(shape["ukw"])
        if v[0] == "undecided":
            counters["undecided"] += 1
            continue
        if v[0] == "may-raise":
            counters["may_raise"] += 1
            if outcome == "ok" and notes:
                pass
            continue
        counters["decided_bind"] += 1
        if outcome != "ok":
            mech = "typeerror-although-binding-complete" if outcome.startswith("TypeError") else "exception-" + outcome.split(":")[0]
            mech += _shape_class(params, shape)
            if "key" in shape["ukw"] and "multiple values for argument 'key'" in outcome:
                mech = "user-kwarg-named-key:TypeError"
            violations.append({"mechanism": mech, "rule": "C07.no-typeerror", "detail": f"{outcome}; reference binding {v[1]}", "witness": wit})
            continue
        if len(notes) != 1:
            violations.append({"mechanism": "callback-not-called-once", "rule": "C07.binding", "detail": f"called {len(notes)} times", "witness": wit})
            continue
        ok, exp, obs = compare(v[1], notes[0], params)
        if not ok:
            violations.append({"mechanism": "binding-differs" + _shape_class(params, shape), "rule": "C07.binding",
                               "detail": f"expected {exp} observed {obs}", "witness": wit})
            continue
        # built-ins cannot be overridden / leaked
        counters["reserved_checked"] += bool(shape["reserved"])
        want_td = sorted(k_ for k_ in shape["ukw"])
        if tds and tds[0] != want_td:
            violations.append({"mechanism": "reserved-names-leak-into-user-kwargs", "rule": "C07.builtins",
                               "detail": f"trigger_data.kwargs keys {tds[0]} expected {want_td}", "witness": wit})
            continue
        if any(isinstance(x, str) and x.startswith("FAKE_") for x in _flat(obs)):
            violations.append({"mechanism": "builtin-overridden-by-user-kwarg", "rule": "C07.builtins",
                               "detail": f"observed {obs}", "witness": wit})
            continue
        if surplus or any(p["default"] for p in params):
            sigs.add(h((kinds_seq, kind, min(len(shape["args"]), 5), bool(shape["ukw"]), bool(shape["reserved"]),
                        group if group in GUARD_FORMS else "action")))
        if group in GUARD_FORMS:
            counters["guard_role_pairs"] = counters.get("guard_role_pairs", 0) + 1
        if len(samples) < 2 and surplus and len(params) >= 3:
            samples.append({"signature": B.signature_source(params), "kind": kind, "group": group, "shape": shape,
                            "observed_locals": obs})


def _flat(x):
    if isinstance(x, dict):
        for v in x.values():
            yield from _flat(v)
    elif isinstance(x, (list, tuple)):
        for v in x:
            yield from _flat(v)
    else:
        yield x


def _shape_class(params, shape):
    npos_params = len([p for p in params if p["kind"] in (B.PO, B.POK)])
    has_kwo = any(p["kind"] == B.KWO for p in params)
    has_varpos = any(p["kind"] == B.VARPOS for p in params)
    if len(shape["args"]) > npos_params and has_kwo and not has_varpos:
        return ":surplus-positionals-before-keyword-only"
    return ""


# ------------------------------------------------------------------ forwarded kwargs (event as callback)
FWD_SRC = '''
class F_{k}(StateMachine):
    s0 = State(initial=True)
    s1 = State()
    s2 = State()
    go = s0.to(s1, after="child")
    child = s1.to(s2)
    reset = s2.to(s0)
    def on_child(self{sig}):
        return NOTE(locals())
    def after_child(self, event_data):
        TD(event_data)
'''


def run_forwarded(rng, counters, violations, sigs):
    from statemachine import State, StateMachine

    k = uid()
    params = gen_signature(rng)
    notes, tds = [], []
    tagger = Tagger()
    sig = B.signature_source(params)
    src = "\n".join(f"DEF_{p['name']} = 'DEF_{p['name']}'" for p in params if p["default"]) + FWD_SRC.format(
        k=k, sig=(", " + sig) if sig else "")
    ns = {"State": State, "StateMachine": StateMachine, "NOTE": lambda loc: notes.append({a: tagger.tag(b) for a, b in loc.items()}),
          "TD": lambda ed: tds.append(sorted(ed.trigger_data.kwargs)), "__name__": f"vmon_c07f_{k}"}
    exec(compile(src, f"<c07f-{k}>", "exec"), ns)
    sm = ns[f"F_{k}"]()
    tagger.sm, tagger.model = sm, sm.model
    for _ in range(4):
        shape = gen_shape(rng, params)
        avail = expected_available(shape, "child", "s1", "s2", "on")
        v = B.verdict(params, shape["args"], avail)
        del notes[:], tds[:]
        try:
            sm.go(*shape["args"], **dict(shape["ukw"], **shape["reserved"]))
            outcome = "ok"
        except Exception as err:  # noqa: BLE001
            outcome = type(err).__name__ + ": " + str(err)[:100]
        try:
            if sm.current_state.id == "s2":
                sm.send("reset")
            elif sm.current_state.id == "s1":
                sm.current_state_value = "s0"
        except Exception:  # noqa: BLE001
            return
        wit = {"source": src, "params": params, "shape": shape}
        if v[0] != "bind":
            counters["undecided" if v[0] == "undecided" else "may_raise"] += 1
            continue
        if outcome != "ok":
            if "key" in shape["ukw"] and "multiple values for argument 'key'" in outcome:
                violations.append({"mechanism": "user-kwarg-named-key:TypeError", "rule": "C07.no-typeerror", "detail": outcome, "witness": wit})
                continue
            violations.append({"mechanism": "forwarded:" + outcome.split(":")[0] + _shape_class(params, shape), "rule": "C07.forwarded",
                               "detail": outcome, "witness": wit})
            continue
        counters["forwarded_checked"] += 1
        ok, exp, obs = compare(v[1], notes[0] if notes else {}, params)
        if not ok:
            violations.append({"mechanism": "forwarded-binding-differs" + _shape_class(params, shape), "rule": "C07.forwarded",
                               "detail": f"expected {exp} observed {obs}", "witness": wit})
            continue
        if tds and tds[0] != sorted(shape["ukw"]):
            violations.append({"mechanism": "forwarded-reserved-names-leak", "rule": "C07.builtins",
                               "detail": f"child trigger_data.kwargs {tds[0]} expected {sorted(shape['ukw'])}", "witness": wit})
            continue
        sigs.add(h(("fwd", tuple(p["kind"] for p in params), len(shape["args"]), bool(shape["ukw"]))))


# ------------------------------------------------------------------ same qualified name, different signature
PAIR_SRC = '''
def make_{k}(variant):
    if variant == 0:
        class M(StateMachine):
            s0 = State(initial=True)
            s1 = State()
            go = s0.to(s1)
            back = s1.to(s0)
            {a0}def on_go(self{sig0}):
                return NOTE(("v0", locals()))
        return M
    class M(StateMachine):
        s0 = State(initial=True)
        s1 = State()
        go = s0.to(s1)
        back = s1.to(s0)
        {a1}def on_go(self{sig1}):
            return NOTE(("v1", locals()))
    return M
'''


def variant_of(rng, params):
    """Same names in the same order, different parameter kinds (so co_varnames is unchanged)."""
    out = [dict(p) for p in params]
    named = [p for p in out if p["kind"] in (B.PO, B.POK, B.KWO)]
    if not named or any(p["kind"] in (B.VARPOS,) for p in out):
        return None
    cut = rng.randrange(len(named))
    changed = False
    for i, p in enumerate(named):
        new = B.POK if i < cut else B.KWO
        if new != p["kind"]:
            changed = True
        p["kind"] = new
    # defaults must stay legal for positional params
    seen_default = False
    for p in named:
        if p["kind"] == B.POK:
            if seen_default and not p["default"]:
                p["default"] = True
            seen_default = seen_default or p["default"]
    return out if changed else None


def run_pair(rng, counters, violations, sigs):
    from statemachine import State, StateMachine

    k = uid()
    for _ in range(20):
        p0 = gen_signature(rng)
        p1 = variant_of(rng, p0)
        if p1 is not None:
            break
    else:
        return
    async_variant = rng.random() < 0.3
    if async_variant:
        p1 = [dict(p) for p in p0]
    notes = []
    tagger = Tagger()
    s0, s1 = B.signature_source(p0), B.signature_source(p1)
    defs = "\n".join(sorted({f"DEF_{p['name']} = 'DEF_{p['name']}'" for p in p0 + p1 if p["default"]}))
    src = defs + PAIR_SRC.format(k=k, sig0=(", " + s0) if s0 else "", sig1=(", " + s1) if s1 else "",
                                 a0="", a1="async " if async_variant else "")
    ns = {"State": State, "StateMachine": StateMachine, "NOTE": lambda t: notes.append((t[0], {a: tagger.tag(b) for a, b in t[1].items()})),
          "__name__": f"vmon_c07p_{k}"}
    exec(compile(src, f"<c07p-{k}>", "exec"), ns)
    order = [0, 1] if rng.random() < 0.5 else [1, 0]
    machines = {}
    for v in order:
        machines[v] = ns[f"make_{k}"](v)()
    for v in order:
        sm = machines[v]
        params = p0 if v == 0 else p1
        tagger.sm, tagger.model = sm, sm.model
        for _ in range(3):
            shape = gen_shape(rng, params)
            shape["reserved"] = {}
            shape["ukw"].pop("key", None)
            avail = expected_available(shape, "go", "s0", "s1", "on")
            verdict = B.verdict(params, shape["args"], avail)
            del notes[:]
            try:
                res = sm.send("go", *shape["args"], **shape["ukw"])
                outcome = "ok"
            except Exception as err:  # noqa: BLE001
                outcome = type(err).__name__ + ": " + str(err)[:100]
            try:
                if sm.current_state.id == "s1":
                    sm.send("back")
            except Exception:  # noqa: BLE001
                pass
            if verdict[0] != "bind":
                continue
            counters["pair_checked"] += 1
            wit = {"source": src, "order_defined": order, "variant": v, "shape": shape, "async_variant": async_variant}
            cls = "sync-vs-async" if async_variant else "different-parameter-kinds"
            if outcome != "ok":
                violations.append({"mechanism": f"same-qualname-pair({cls}):" + outcome.split(":")[0], "rule": "C07.own-signature-only",
                                   "detail": outcome, "witness": wit})
                return
            if not notes or notes[0][0] != f"v{v}":
                violations.append({"mechanism": f"same-qualname-pair({cls}):callback-not-run", "rule": "C07.own-signature-only",
                                   "detail": f"notes={notes[:1]}", "witness": wit})
                return
            ok, exp, obs = compare(verdict[1], notes[0][1], params)
            if not ok:
                violations.append({"mechanism": f"same-qualname-pair({cls}):binding-differs", "rule": "C07.own-signature-only",
                                   "detail": f"expected {exp} observed {obs}", "witness": wit})
                return
    sigs.add(h(("pair", async_variant, tuple(p["kind"] for p in p0), tuple(p["kind"] for p in p1))))


WRAPPED_SRC = '''
import functools

def traced(f):
    @functools.wraps(f)
    def wrapper(*args, **kwargs):      # one code object shared by every decorated callback
        return f(*args, **kwargs)
    return wrapper

def timed(f):
    @functools.wraps(f)
    def wrapper(*args, **kwargs):
        return f(*args, **kwargs)
    return wrapper

def plugin_a():
    class Listener:
        {d0}
        def on_go(self{sig0}):
            return NOTE(("a", locals()))
    return Listener()

def plugin_b():
    class Listener:
        {d1}
        def on_go(self{sig1}):
            return NOTE(("b", locals()))
    return Listener()

class W_{k}(StateMachine):
    s0 = State(initial=True)
    s1 = State()
    go = s0.to(s1)
    back = s1.to(s0)
'''


def run_wrapped_pair(rng, counters, violations, sigs, two_machines=False):
    """Two listener classes with the same __name__ (two plug-ins) whose same-named callbacks are wrapped
    by the same functools.wraps decorator (shared code object) but declare different parameters."""
    from statemachine import State, StateMachine

    k = uid()
    p0, p1 = gen_signature(rng), gen_signature(rng)
    notes = []
    tagger = Tagger()
    s0, s1 = B.signature_source(p0), B.signature_source(p1)
    defs = "\n".join(sorted({f"DEF_{p['name']} = 'DEF_{p['name']}'" for p in p0 + p1 if p["default"]}))
    # the same stack of 1-3 signature-preserving decorators on both callbacks
    stack = rng.choice([["traced"], ["traced"], ["traced", "timed"], ["timed", "traced"], ["traced", "traced"], ["traced", "timed", "traced"]])
    deco = "\n        ".join("@" + d for d in stack)
    counters["wrapped_pairs_stacked_decorators"] = counters.get("wrapped_pairs_stacked_decorators", 0) + (len(stack) > 1)
    src = defs + WRAPPED_SRC.format(k=k, sig0=(", " + s0) if s0 else "", sig1=(", " + s1) if s1 else "", d0=deco, d1=deco)
    ns = {"State": State, "StateMachine": StateMachine, "NOTE": lambda t: notes.append((t[0], {a: tagger.tag(b) for a, b in t[1].items()})),
          "__name__": f"vmon_c07w_{k}"}
    exec(compile(src, f"<c07w-{k}>", "exec"), ns)
    la, lb = ns["plugin_a"](), ns["plugin_b"]()
    order = [la, lb] if rng.random() < 0.5 else [lb, la]
    late = rng.random() < 0.4
    sm2 = None
    if two_machines:
        # each plug-in listens to its own machine (two instances in one process)
        sm = ns[f"W_{k}"](listeners=order[:1])
        sm2 = ns[f"W_{k}"](sm.model, listeners=order[1:])
        late = False
    else:
        sm = ns[f"W_{k}"](listeners=order[:1] if late else order)
        if late:
            sm.add_listener(order[1])
    tagger.sm, tagger.model = sm, sm.model
    for _ in range(3):
        shape = gen_shape(rng, p0 + p1)
        shape["reserved"] = {}
        shape["ukw"].pop("key", None)
        avail = expected_available(shape, "go", "s0", "s1", "on")
        v0, v1 = B.verdict(p0, shape["args"], avail), B.verdict(p1, shape["args"], avail)
        del notes[:]
        try:
            tagger.sm = sm
            sm.go(*shape["args"], **shape["ukw"])
            if sm2 is not None:
                # same model object: bring it back, then drive the second machine
                sm.send("back")
                tagger.sm = sm2
                sm2.go(*shape["args"], **shape["ukw"])
            outcome = "ok"
        except Exception as err:  # noqa: BLE001
            outcome = type(err).__name__ + ": " + str(err)[:100]
        try:
            if sm.current_state.id == "s1":
                sm.send("back")
        except Exception:  # noqa: BLE001
            pass
        if v0[0] != "bind" or v1[0] != "bind":
            continue
        counters["wrapped_pair_checked"] = counters.get("wrapped_pair_checked", 0) + 1
        wit = {"source": src, "shape": shape, "late": late}
        if outcome != "ok":
            violations.append({"mechanism": "same-named-wrapped-callbacks:" + outcome.split(":")[0], "rule": "C07.own-signature-only",
                               "detail": outcome, "witness": wit})
            return
        got = dict(notes)
        for tag, params, v in (("a", p0, v0), ("b", p1, v1)):
            ok, exp, obs = compare(v[1], got.get(tag, {}), params)
            if not ok:
                violations.append({"mechanism": "same-named-wrapped-callbacks:binding-differs", "rule": "C07.own-signature-only",
                                   "detail": f"plugin_{tag}: expected {exp} observed {obs}", "witness": wit})
                return
    sigs.add(h(("wrapped", tuple(p["kind"] for p in p0), tuple(p["kind"] for p in p1), late)))


def run_partial_pair(rng, counters, violations, sigs, two_machines=False):
    """The same function used plain by one provider and as a keyword-only functools.partial by another:
    each must be bound according to its own signature (a partial is not the function it wraps)."""
    from statemachine import State, StateMachine

    k = uid()
    notes = []
    tagger = Tagger()

    def raw(first=None, a=None, *, kk=None, **extra):
        notes.append({n: tagger.tag(v) for n, v in locals().items() if n in ("first", "a", "kk", "extra")})

    class Holder:
        pass

    plain, part = Holder(), Holder()
    plain.on_go = raw
    part.on_go = functools.partial(raw, first="BOUND")
    src = "class P(StateMachine): s0=State(initial=True); s1=State(); go=s0.to(s1); back=s1.to(s0)"
    ns = {"State": State, "StateMachine": StateMachine, "__name__": f"vmon_c07pp_{k}"}
    exec(compile("class P(StateMachine):\n    s0 = State(initial=True)\n    s1 = State()\n    go = s0.to(s1)\n    back = s1.to(s0)\n", "<c07pp>", "exec"), ns)
    order = [plain, part] if rng.random() < 0.5 else [part, plain]
    npos = rng.choice([0, 1, 2, 3])
    args = [f"P{i}" for i in range(npos)]
    ukw = {"kk": "U_kk"} if rng.random() < 0.5 else {}
    try:
        if two_machines:
            # two unrelated machine instances, one using the function plain, the other the partial
            for holder in order:
                sm = ns["P"](listeners=[holder])
                sm.go(*args, **ukw)
        else:
            sm = ns["P"](listeners=order)
            sm.go(*args, **ukw)
        outcome = "ok"
    except Exception as err:  # noqa: BLE001
        outcome = type(err).__name__ + ": " + str(err)[:100]
    counters["partial_pair_checked"] = counters.get("partial_pair_checked", 0) + 1
    wit = {"source": src + " + listeners with on_go = raw and on_go = functools.partial(raw, first='BOUND')", "order": ["plain" if o is plain else "partial" for o in order]}
    if outcome != "ok":
        violations.append({"mechanism": "plain-vs-partial-of-one-function:" + outcome.split(":")[0], "rule": "C07.own-signature-only",
                           "detail": outcome, "witness": wit})
        return
    # expected: plain takes positionals for first / a; the partial has `first` pre-bound, so `a` became
    # keyword-only and positional arguments cannot reach it
    exp_plain = {"first": args[0] if npos > 0 else None, "a": args[1] if npos > 1 else None, "kk": ukw.get("kk")}
    exp_part = {"first": "BOUND", "a": None, "kk": ukw.get("kk")}
    got_plain = [n for n in notes if n["first"] != "BOUND"]
    got_part = [n for n in notes if n["first"] == "BOUND"]
    ok = len(notes) == 2 and len(got_plain) == 1 and len(got_part) == 1 and all(got_plain[0][f] == exp_plain[f] for f in exp_plain) \
        and all(got_part[0][f] == exp_part[f] for f in exp_part)
    if not ok:
        violations.append({"mechanism": "plain-vs-partial-of-one-function:binding-differs", "rule": "C07.own-signature-only",
                           "detail": f"args={args} ukw={ukw} observed={[{f: n[f] for f in ('first', 'a', 'kk')} for n in notes]} expected plain={exp_plain} partial={exp_part}",
                           "witness": wit})
        return
    sigs.add(h(("partial-pair", npos, bool(ukw), wit["order"][0])))


REEXEC_SRC = '''
class ReM(StateMachine):
    s0 = State(initial=True)
    s1 = State()
    go = s0.to(s1)
    back = s1.to(s0)
    def on_go(self{sig}):
        return NOTE(locals())
'''


def run_reexec(rng, counters, violations, sigs, rounds=40):
    """The same class and callback names compiled again and again (notebook cell re-run, exec, generated
    classes) with different signatures; earlier generations are dropped and garbage collected."""
    import gc

    from statemachine import State, StateMachine

    for r in range(rounds):
        params = gen_signature(rng)
        notes = []
        tagger = Tagger()
        sig = B.signature_source(params)
        src = "\n".join(f"DEF_{p['name']} = 'DEF_{p['name']}'" for p in params if p["default"]) + REEXEC_SRC.format(sig=(", " + sig) if sig else "")
        ns = {"State": State, "StateMachine": StateMachine, "NOTE": lambda loc: notes.append({a: tagger.tag(b) for a, b in loc.items()}),
              "__name__": "vmon_c07_reexec"}
        exec(compile(src, "<c07-reexec>", "exec"), ns)
        sm = ns["ReM"]()
        tagger.sm, tagger.model = sm, sm.model
        for _ in range(2):
            shape = gen_shape(rng, params)
            shape["reserved"] = {}
            shape["ukw"].pop("key", None)
            avail = expected_available(shape, "go", "s0", "s1", "on")
            v = B.verdict(params, shape["args"], avail)
            del notes[:]
            try:
                sm.go(*shape["args"], **shape["ukw"])
                outcome = "ok"
            except Exception as err:  # noqa: BLE001
                outcome = type(err).__name__ + ": " + str(err)[:100]
            try:
                if sm.current_state.id == "s1":
                    sm.send("back")
            except Exception:  # noqa: BLE001
                pass
            if v[0] != "bind":
                continue
            counters["reexec_checked"] = counters.get("reexec_checked", 0) + 1
            wit = {"source": src, "round": r, "shape": shape, "params": params}
            if outcome != "ok":
                violations.append({"mechanism": "recompiled-same-name-class:" + outcome.split(":")[0], "rule": "C07.own-signature-only",
                                   "detail": f"round {r}: {outcome}", "witness": wit})
                return
            ok, exp, obs = compare(v[1], notes[0] if notes else {}, params)
            if not ok:
                violations.append({"mechanism": "recompiled-same-name-class:binding-differs", "rule": "C07.own-signature-only",
                                   "detail": f"round {r}: expected {exp} observed {obs}", "witness": wit})
                return
        del sm, ns
        gc.collect()
    sigs.add(h(("reexec", rounds)))


def plan(tier, seed):
    n, per = (16, 120) if tier == "quick" else (64, 900)
    return [{"seed": seed * 7919 + i * 31 + 5, "count": per} for i in range(n)] + [{"repo_suite": True}]


def run_repo_suite():
    """Auxiliary contract I2: the repository's own test-suite run with an icontract postcondition on
    SignatureAdapter.bind_expected (vmon/i2plugin.py) - every dispatch the suite makes is compared with
    the reference binder. Zero evaluations is inconclusive for the auxiliary, never green."""
    import json
    import os
    import shutil
    import subprocess
    import tempfile

    repo = os.environ.get("VERIF_REPO", "/repo")
    root = os.path.dirname(os.path.dirname(os.path.abspath(__file__)))
    out = tempfile.mktemp(suffix=".json", prefix="i2-")
    env = dict(os.environ, VMON_I2_OUT=out, PYTHONPATH=os.pathsep.join([repo, root, os.path.join(root, ".deps")]))
    tracked_before = subprocess.run(["git", "-C", repo, "status", "--porcelain"], capture_output=True, text=True).stdout
    cp = subprocess.run(["/venv/bin/python", "-m", "pytest", "tests", "-q", "-p", "no:cacheprovider", "-p", "vmon.i2plugin",
                         "--timeout=600", "-x"], cwd=repo, env=env, capture_output=True, text=True, timeout=900)
    for junk in (".benchmarks", ".coverage"):
        pth = os.path.join(repo, junk)
        if junk not in tracked_before and os.path.exists(pth):
            shutil.rmtree(pth, ignore_errors=True) if os.path.isdir(pth) else os.unlink(pth)
    counters = {"i2_contract_evaluations": 0, "i2_contract_decided": 0}
    violations = []
    if os.path.exists(out):
        stats = json.load(open(out))
        os.unlink(out)
        counters["i2_contract_evaluations"] = stats["evaluations"]
        counters["i2_contract_decided"] = stats["decided"]
        for v in stats["violations"][:3]:
            violations.append({"mechanism": "contract-I2:binding-differs-during-repository-test-suite", "rule": "C07.binding",
                               "detail": json.dumps(v)[:600], "witness": {"contract": "vmon/i2plugin.py", "case": v}})
    res = {"evaluations": counters["i2_contract_decided"], "signatures": [], "samples": [], "counters": counters, "violations": violations}
    if not counters["i2_contract_evaluations"]:
        # the auxiliary attaches to a private method; when it cannot attach it says so and the
        # API-level workloads above still decide the property
        counters["i2_contract_detached"] = 1
    return res


def run_shard(desc):
    if desc.get("repo_suite"):
        return run_repo_suite()
    rng = random.Random(desc["seed"])
    counters = {"pairs": 0, "decided_bind": 0, "undecided": 0, "may_raise": 0, "reserved_checked": 0,
                "forwarded_checked": 0, "pair_checked": 0}
    violations, sigs, samples = [], set(), []
    from vmon.render import release_library_caches

    for i in range(desc["count"]):
        if i % 25 == 0:
            release_library_caches()
        run_one(rng, counters, violations, sigs, samples)
        if i % 3 == 0:
            run_forwarded(rng, counters, violations, sigs)
        if i % 3 == 1:
            run_pair(rng, counters, violations, sigs)
        if i % 40 == 7:
            run_reexec(rng, counters, violations, sigs)
        if i % 4 == 2:
            run_wrapped_pair(rng, counters, violations, sigs)
        if i % 4 == 3:
            run_partial_pair(rng, counters, violations, sigs)
    byk = {}
    for v in violations:
        byk.setdefault(v["mechanism"], []).append(v)
    violations = [v for vs in byk.values() for v in sorted(vs, key=lambda x: len(str(x)))[:2]]
    return {"evaluations": counters["pairs"] + counters["forwarded_checked"] + counters["pair_checked"],
            "signatures": sorted(sigs), "samples": samples, "counters": counters, "violations": violations}


def replay(witness):
    w = witness["witness"]
    counters = {"pairs": 0, "decided_bind": 0, "undecided": 0, "may_raise": 0, "reserved_checked": 0,
                "forwarded_checked": 0, "pair_checked": 0}
    violations = []
    if "kind" in w:
        rng = random.Random(0)
        run_one(rng, counters, violations, set(), [], kind=w["kind"], params=w["params"], shapes=[w["shape"]], group=w.get("group"))
    return {"evaluations": 1, "violations": violations, "counters": counters}
