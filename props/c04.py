"""C04 — a failing callback leaves a consistent, usable machine (fault enumeration)."""
from vmon import family as F
from vmon.run import Run

META = {
    "level": "fault_enumeration",
    "technique": "systematic fault injection at every callback invocation position + online trace checker",
    "rule": (
        "scenarios = C03-style machines (nested sends from every group, so events wait in the queue when "
        "the fault hits) on both engines and both processing modes; pass 1 runs fault-free and counts "
        "callback invocations N; then EVERY invocation position k=1..N is a crash point (raise before and, "
        "when the callback sends events, also after its nested sends), plus double faults in consecutive "
        "sends, queued events that are not allowed, and a BaseException fault class. After each failure "
        "the remaining 2-6 events of the history are checked too. Oracle: exception object reaches the "
        "outermost caller, state = source|target by phase, dropped tokens never run, next send normal. "
        "Failures come as subclasses of RuntimeError/AttributeError/KeyError/NotImplementedError/TypeError/LookupError/ValueError (and StopIteration on synchronous machines) with one class name; property guards raise too; callbacks suspend, so siblings overlap. "
        "distinct_nontrivial = distinct crash classes (phase, first/nested/initial event, provider, "
        "queue non-empty, rtc, engine, exception kind) actually hit."
    ),
    "assumptions": [
        "siblings of the failing callback inside the failing group are masked (asyncio.gather lets them run, the sync engine does not; neither is specified — H4)",
        "callbacks do not catch the exceptions of their nested sends",
    ],
    "must_observe": ["faults", "dropped_tokens", "events_executed", "crash_points"],
    "shard_timeout": {"quick": 900, "thorough": 3400},
}

PROFILE = {"n_states": (2, 4), "n_events": (1, 3), "extra_transitions": (1, 4), "p_multi_event": 0.2,
           "p_guard": 0.2, "p_validator": 0.05, "p_conv": 0.2, "p_inline": 0.3, "p_deco": 0.12,
           "providers": ["sm", "model", "l0"], "p_nested": 0.3, "nested_max": 2, "p_unknown_nested": 0.06, "yields": 2}


def owns(rule, flags):
    return rule.startswith("C04.") or bool(flags.get("after_failure")) or rule == "C05.phase-barrier"


def make_case(rng, i):
    prof = dict(PROFILE)
    prof["allow"] = rng.random() < 0.7
    case = F.basic_case(rng, prof, hist=(3, 7), drivers=("sync", "inloop"), p_unknown=0.05,
                        async_modes=("none", "none", "all", "half"))
    case["send_budget"] = rng.choice([3, 5])
    sc = case["scenario"]
    # a raising guard is a failing callback too (method guards only; 5% of the valuations)
    for st in sc.steps:
        # (not while constructing: property guards are read when callbacks are registered)
        if st.get("val") and st.get("op") == "send":
            for nm, g in sc.spec["guards"].items():
                if (g["kind"] == "method" and rng.random() < 0.05) or (g["kind"] == "prop" and rng.random() < 0.12):
                    st["val"][nm] = "raise"
    # pass 1: fault-free, counts the crash points
    run = Run(sc, send_budget=case["send_budget"])
    log = run.execute()
    n = run.rec.invocation
    sends_at = {}
    cur = None
    for e in log:
        if e["k"] == "cb_begin":
            sends_at[e["inv"]] = bool(sc.spec["cbs"].get(e["cb"], {}).get("script", {}).get("sends"))
    faults = [None]
    for k in range(1, n + 1):
        faults.append({"at": k, "when": "before_sends"})
        if sends_at.get(k):
            faults.append({"at": k, "when": "after_sends"})
        if rng.random() < 0.12:
            faults.append({"at": [k, k + rng.randint(1, 4)], "when": "after_sends"})
        if rng.random() < 0.08:
            faults.append({"at": k, "when": "after_sends", "exc": "base"})
    case["faults"] = faults
    case["crash_points"] = n
    gy = {g: rng.randint(0, 2) for g in sc.spec["guards"]}
    case["rec_setup"] = lambda rec: setattr(rec, "guard_yields", gy)
    return case


def signature(case, ck, log, fault):
    eng = "async" if case["scenario"].spec["any_async"] else "sync"
    return [(c, eng, case["scenario"].driver) for c in getattr(ck, "fault_classes", ())]


def classify(case, rule, detail, log, fault, ck):
    if fault and fault.get("exc") == "base":
        return "base-exception:" + rule
    return rule


def plan(tier, seed):
    return F.std_plan(tier, seed, 160, 5000)


def run_shard(desc):
    total = {"n": 0}

    def mk(rng, i):
        c = make_case(rng, i)
        total["n"] += c["crash_points"]
        return c

    out = F.explore(desc, mk, owns, signature, classify=classify,
                    sample_pred=lambda case, ck, log, fault: fault is not None and ck.stats["dropped_tokens"] > 0)
    out["counters"]["crash_points"] = total["n"]
    return out


def replay(witness):
    return F.replay_case(witness, owns)
