"""C18 — the generated diagram is a faithful picture of the machine."""
import itertools
import json
import re
import random
import subprocess
import warnings

from props import c10
from vmon import family as F
from vmon import gen, render
from vmon.rec import Recorder

META = {
    "level": "exploration",
    "technique": "runtime comparison of the produced graph with the declared machine through two independent readings (pydot object API and Graphviz `dot -Tjson` of the DOT text)",
    "rule": (
        "cases = machines of the C01 generator (parallel edges, self-loops, internal transitions, final "
        "states, multi-event transitions, cond/unless guards, from_.any(), falsy/typed state values, state ids "
        "that are DOT keywords or the pseudo-node's own id), as "
        "class diagram and as instance diagram at EVERY state of the machine (moved there through the "
        "public low-level setter); per graph: node set == state ids + initial pseudo-node, edge multiset "
        "== {pseudo->initial} + one (source,target) per external transition, each edge label carries its "
        "events and guard names, internal transitions appear inside their state's label and not as edges, "
        "double border <=> final, highlighted nodes == {current state}; both readings must agree. "
        ""
        "one DotGraphMachine object kept over the instance's life / fresh per picture / sm._graph(). "
        "The guard text of an edge must MEAN the declared guards (truth table), guards by function object or joined expression. "
        "distinct_nontrivial = distinct machine shapes (states, edge multiset, finals, internal, guards) "
        "with an internal transition, a final state or parallel edges."
    ),
    "assumptions": [
        "35% of the machines use state ids that mean something to DOT or to the diagram code (i, _i, node, edge, graph, digraph, subgraph, strict, label, list, capitalised variants); an unquoted node/edge/graph statement is read as what DOT says it is (default attributes), not as a node",
        "a state with id `i` next to the initial pseudo-node is also probed on a fixed two-state machine (W16, repaired)",
        "highlight = node whose fill colour differs from the most common fill among state nodes (ties: differs from white)",
    ],
    "must_observe": ["graphs", "instance_graphs", "dot_json_readings", "edges_checked", "internal_checked"],
    "shard_timeout": {"quick": 900, "thorough": 3400},
}

PROFILE = {"n_states": (1, 6), "n_events": (1, 4), "extra_transitions": (1, 7), "p_multi_event": 0.3,
           "p_guard": 0.5, "p_validator": 0.05, "p_conv": 0.1, "p_inline": 0.25, "p_deco": 0.05,
           "providers": ["sm", "model"], "p_any": 0.25, "p_internal": 0.5, "p_self": 0.35, "p_final": 0.25,
           "async_mode": "none", "p_state_ids": 0.35,
           "state_ids": ["i", "_i", "I", "j", "n", "node", "edge", "graph", "digraph", "subgraph", "strict", "label", "list", "Node"]}


def unq(s):
    if isinstance(s, str) and len(s) >= 2 and s[0] == '"' and s[-1] == '"':
        return s[1:-1].replace('\\"', '"')
    return s


def read_pydot(graph):
    nodes = {}
    for n in graph.get_nodes():
        raw = n.get_name()
        name = unq(raw)
        if raw.lower() in ("node", "edge", "graph"):
            continue        # unquoted: a DOT default-attribute statement, not a node
        a = n.get_attributes()
        nodes.setdefault(name, []).append({"label": unq(a.get("label", "")), "peripheries": str(a.get("peripheries", "")),
                                           "fillcolor": unq(str(a.get("fillcolor", ""))), "shape": unq(str(a.get("shape", "")))})
    edges = []
    for e in graph.get_edges():
        edges.append((str(unq(e.get_source())), str(unq(e.get_destination())), unq(e.get_attributes().get("label", ""))))
    return nodes, edges


def read_dot_json(dot_text):
    cp = subprocess.run(["dot", "-Tjson"], input=dot_text, capture_output=True, text=True, timeout=60)
    if cp.returncode != 0:
        return None, None, cp.stderr[:300]
    doc = json.loads(cp.stdout)
    objs = doc.get("objects", [])
    nodes = {}
    for o in objs:
        nodes.setdefault(o["name"], []).append({"label": o.get("label", ""), "peripheries": str(o.get("peripheries", "")),
                                                "fillcolor": o.get("fillcolor", ""), "shape": o.get("shape", "")})
    edges = []
    for e in doc.get("edges", []):
        edges.append((objs[e["tail"]]["name"], objs[e["head"]]["name"], e.get("label", "")))
    return nodes, edges, None


def expected(spec):
    sids = [s["id"] for s in spec["states"]]
    init = next(s["id"] for s in spec["states"] if s["initial"])
    ext = [t for t in spec["transitions"] if not t["internal"]]
    internal = [t for t in spec["transitions"] if t["internal"]]
    return sids, init, ext, internal


_OPS = re.compile(r"\!(?!=)|\^|\bv\b")


def guard_text_means(text, guards):
    """Does the guard text of an edge label (comma separated entries, each a name or a boolean expression
    in the library's spelling) MEAN: every cond guard truthy and every unless guard falsy? Decided on the
    full truth table of the guard names."""
    names = sorted({g["name"] for g in guards})
    text = text.strip()
    if not names:
        return text == ""
    if not text:
        return False
    entries = [e.strip() for e in text.split(",") if e.strip()]
    try:
        codes = [compile(_OPS.sub(lambda m: {"!": " not ", "^": " and ", "v": " or "}[m.group(0)], e).strip(), "<label>", "eval") for e in entries]
    except SyntaxError:
        return False
    for bits in itertools.product([False, True], repeat=len(names)):
        env = dict(zip(names, bits))
        want = all(env[g["name"]] for g in guards if g["kind"] == "cond") and not any(env[g["name"]] for g in guards if g["kind"] == "unless")
        try:
            got = all(bool(eval(c, {"__builtins__": {}}, dict(env))) for c in codes)  # noqa: S307
        except Exception:  # noqa: BLE001
            return False
        if got != want:
            return False
    return True


def judge(spec, nodes, edges, current, reading, counters):
    """-> list of (mechanism, detail)"""
    out = []
    sids, init, ext, internal = expected(spec)
    pseudo = [n for n in nodes if n not in sids]
    dup = [n for n, v in nodes.items() if len(v) > 1]
    if dup:
        out.append(("node-declared-twice", f"{reading}: nodes {dup} appear more than once"))
    if sorted(n for n in nodes if n in sids) != sorted(sids):
        out.append(("state-node-missing", f"{reading}: state nodes {sorted(n for n in nodes if n in sids)} != states {sorted(sids)}"))
        return out
    if len(pseudo) != 1:
        out.append(("initial-pseudo-node", f"{reading}: expected exactly one initial pseudo-node, found {pseudo}"))
        return out
    p = pseudo[0]
    want = sorted([(p, init)] + [(t["src"], t["dst"]) for t in ext])
    got = sorted((a, b) for a, b, _l in edges)
    if got != want:
        missing = [e for e in want if want.count(e) > got.count(e)]
        extra = [e for e in got if got.count(e) > want.count(e)]
        kind = "internal-drawn-as-edge" if any((t["src"], t["dst"]) in extra for t in internal) and not missing else \
            ("edge-direction" if sorted((b, a) for a, b in got) == want and got != want else "edge-multiset")
        out.append((kind, f"{reading}: edges missing {sorted(set(missing))} extra {sorted(set(extra))}"))
        return out
    counters["edges_checked"] += len(got)
    # labels: match every external transition to a distinct edge carrying its events and guards
    pool = [(a, b, l) for a, b, l in edges if a != p]
    for t in ext:
        hit, wrong_guard = None, None
        for i, (a, b, l) in enumerate(pool):
            if a != t["src"] or b != t["dst"]:
                continue
            text = l.replace("\\n", "\n")
            head, _, gtext = text.partition("[")
            if not all(e in head.replace("\n", " ").split() for e in t["events"]):
                continue
            if guard_text_means(gtext.rsplit("]", 1)[0] if gtext else "", t["guards"]):
                hit = i
                break
            wrong_guard = l
        if hit is None:
            mech = "edge-label-guards" if wrong_guard is not None else "edge-label"
            if wrong_guard is not None and t.get("join_guards") and not any(g["kind"] == "cond" for g in t["guards"]):
                mech = "unless-expression-shown-with-negation-on-first-operand-only"
            out.append((mech, f"{reading}: no edge {t['src']}->{t['dst']} labelled with events {t['events']} and a guard text meaning "
                              f"cond={[g['name'] for g in t['guards'] if g['kind'] == 'cond']} unless={[g['name'] for g in t['guards'] if g['kind'] == 'unless']}; "
                              f"labels: {[l for a, b, l in pool if a == t['src'] and b == t['dst']]}"))
            break
        pool.pop(hit)
    # internal transitions inside their state
    for t in internal:
        counters["internal_checked"] += 1
        label = nodes[t["src"]][0]["label"]
        toks = label.replace("\n", " ").replace("\\n", " ").replace("/", " ").split()
        if not all(e in toks for e in t["events"]):
            out.append(("internal-not-listed-in-state", f"{reading}: internal transition {t['events']} of {t['src']} not in its node label {label!r}"))
            break
    # final <=> double border
    for s in spec["states"]:
        per = nodes[s["id"]][0]["peripheries"]
        if (per == "2") != bool(s["final"]):
            out.append(("final-border", f"{reading}: state {s['id']} final={s['final']} drawn with peripheries={per}"))
            break
    # highlight
    fills = [nodes[s][0]["fillcolor"] for s in sids]
    common = max(set(fills), key=lambda f: (fills.count(f), f == "white"))
    if fills.count(common) * 2 == len(fills) and "white" in fills:
        common = "white"
    hl = sorted(s for s in sids if nodes[s][0]["fillcolor"] != common)
    want_hl = [current] if current is not None else []
    if len(sids) == 1 and current is not None:
        hl = want_hl if fills[0] != "white" else []
    if hl != want_hl:
        out.append(("highlight", f"{reading}: highlighted {hl} expected {want_hl} (fills {dict(zip(sids, fills))})"))
    return out


def shape_sig(spec):
    sids, init, ext, internal = expected(spec)
    return (len(sids), sorted((t["src"], t["dst"]) for t in ext), sorted(t["src"] for t in internal),
            sorted(s["id"] for s in spec["states"] if s["final"]), sorted(len(t["guards"]) for t in ext))


def run_one(rng, counters, violations, sigs, samples):
    from statemachine.contrib.diagram import DotGraphMachine

    spec = gen.gen_spec(rng, PROFILE)
    for g in spec["guards"].values():
        if g["providers"] == ["sm"] and g["kind"] == "method" and rng.random() < 0.35:
            g["by_obj"] = True          # the guard function itself is passed as cond= / unless=
    if rng.random() < 0.4:
        c10.assign_values(rng, spec)
    rec = Recorder()
    rec.scripts = {cid: cb["script"] for cid, cb in spec["cbs"].items()}
    with warnings.catch_warnings():
        warnings.simplefilter("ignore")
        mod, source = render.load(spec, rec)
        cls = getattr(mod, f"M_{spec['uid']}")
        objs = render.provider_objects(spec, mod)
        sm = cls(objs["model"])
    targets = [("class", cls, None)]
    for st in sm.states:
        targets.append(("instance", sm, st))
    sids, init, ext, internal = expected(spec)
    nontrivial = bool(internal) or any(s["final"] for s in spec["states"]) or len(set((t["src"], t["dst"]) for t in ext)) < len(ext)
    # one renderer object kept over the instance's life (its picture must follow the machine) or a
    # fresh one per picture, or the machine's own _graph()
    reuse = rng.choice(["fresh", "kept", "kept", "_graph"])
    kept = DotGraphMachine(sm)
    for kind, obj, st in targets:
        current = None
        if kind == "instance":
            sm.current_state_value = st.value
            current = st.id
            counters["instance_graphs"] += 1
        if kind == "instance" and reuse == "kept":
            graph = kept()
            counters["renderer_reused"] = counters.get("renderer_reused", 0) + 1
        elif kind == "instance" and reuse == "_graph":
            graph = sm._graph()
        else:
            graph = DotGraphMachine(obj)()
        counters["graphs"] += 1
        probs = judge(spec, *read_pydot(graph), current, "pydot", counters)
        if not probs and (counters["graphs"] % 3 == 0 or kind == "class"):
            text = graph.to_string()
            nodes2, edges2, err = read_dot_json(text)
            if err:
                probs.append(("dot-rejects-output", err))
            else:
                counters["dot_json_readings"] += 1
                probs = judge(spec, nodes2, edges2, current, "dot-json", counters)
        for mech, detail in probs:
            violations.append({"mechanism": mech, "rule": "C18." + mech, "detail": detail[:600],
                               "witness": {"source": source, "kind": kind, "current": current, "dot": graph.to_string()[:3000]}})
        if probs:
            break
    else:
        if nontrivial:
            sigs.add(F.h(shape_sig(spec)))
        if len(samples) < 2 and internal and any(s["final"] for s in spec["states"]):
            samples.append({"source": source[:1500], "dot": DotGraphMachine(sm)().to_string()[:2000]})
    render.unload(spec)


W16_SRC = '''
class Mi(StateMachine):
    i = State(initial=True)
    j = State(final=True)
    go = i.to(j)
'''


def probe_w16(counters, violations):
    from statemachine import State, StateMachine
    from statemachine.contrib.diagram import DotGraphMachine

    ns = {"State": State, "StateMachine": StateMachine, "__name__": "vmon_c18"}
    exec(compile(W16_SRC, "<c18-i>", "exec"), ns)
    graph = DotGraphMachine(ns["Mi"])()
    nodes, edges = read_pydot(graph)
    counters["graphs"] += 1
    if len(nodes.get("i", [])) != 1 or len([n for n in nodes if n not in ("i", "j")]) != 1:
        violations.append({"mechanism": "state-id-i-collides-with-initial-pseudo-node", "rule": "C18.initial-pseudo-node",
                           "detail": f"nodes {dict((k, len(v)) for k, v in nodes.items())} edges {[(a, b) for a, b, _ in edges]}",
                           "witness": {"source": W16_SRC, "dot": graph.to_string()}})


def plan(tier, seed):
    n, per = (16, 60) if tier == "quick" else (64, 250)
    return [{"seed": seed * 8191 + i * 13 + 3, "count": per, "w16": i == 0} for i in range(n)]


def run_shard(desc):
    rng = random.Random(desc["seed"])
    counters = {"graphs": 0, "instance_graphs": 0, "dot_json_readings": 0, "edges_checked": 0, "internal_checked": 0, "machines": 0}
    violations, sigs, samples = [], set(), []
    if desc.get("w16"):
        probe_w16(counters, violations)
    for _ in range(desc["count"]):
        counters["machines"] += 1
        run_one(rng, counters, violations, sigs, samples)
    byk = {}
    for v in violations:
        byk.setdefault(v["mechanism"], []).append(v)
    violations = [v for vs in byk.values() for v in sorted(vs, key=lambda x: len(x["witness"].get("source", "")))[:2]]
    return {"evaluations": counters["graphs"], "signatures": sorted(sigs), "samples": samples, "counters": counters,
            "violations": violations}


def replay(witness):
    counters = {"graphs": 0, "instance_graphs": 0, "dot_json_readings": 0, "edges_checked": 0, "internal_checked": 0, "machines": 0}
    violations = []
    probe_w16(counters, violations)
    return {"evaluations": 1, "violations": violations, "counters": counters}
