"""C09 — class-definition validation accepts exactly the well-formed machines.

Monitor: every generated class statement is executed against the real metaclass with warnings
recorded; the outcome (accepted / InvalidDefinition / other exception, number of UserWarnings)
is compared with an independent closure-based graph oracle.
"""

from __future__ import annotations

import hashlib
import itertools
import random
import warnings

META = {
    "level": "exploration",
    "rule": (
        "cases = class statements over n states with an edge multiset, initial/final flag subsets, "
        "strict_states on/off, rendered in one of several declaration styles; exhaustive over all "
        "edge sets x flag subsets x strict for n<=3 (quick) and additionally n=4 with initial={s0} "
        "(thorough), seeded sampling for n=4..5 incl. duplicate edges, from_.any(), internal "
        "transitions, Event() without transitions, no events. "
        "sampled cases vary the state declaration too: shared display names, States({...}), States.from_enum over an IntEnum from 0 with scalar or list final=. "
        "Also: the graph declared in a base class with strict_states only on the subclass. "
        "distinct_nontrivial = distinct "
        "(n, edge multiset, initial set, final set, strict, extras) tuples with n>=2 states."
    ),
    "assumptions": [
        "the oracle reads the property statement: >=1 state, >=1 event, exactly one initial, no "
        "transition out of a final state, internal => self-loop, all states reachable from the "
        "initial; trap / no-path-to-final => InvalidDefinition under strict_states else one "
        "UserWarning per kind",
        "all states are declared before any transition (from_.any() expands onto states known "
        "when the event is defined)",
    ],
    "must_observe": ["accepted", "rejected", "warned"],
    "shard_timeout": {"quick": 900, "thorough": 3000},
    "max_samples": 6,
}

SPECIALS = [
    # (source body, expected outcome)
    ("    pass\n", "abstract"),
    ("    go = Event()\n", "invalid"),  # events but no states
    ("    s0 = State(initial=True)\n", "invalid"),  # states but no events
    ("    s0 = State(initial=True)\n    s1 = State()\n", "invalid"),
]


# ----------------------------------------------------------------------------- oracle
def oracle(n, edges, initial, final, strict, any_targets=(), bare_event=False):
    """edges: list of (i, j, internal). any_targets: targets of from_.any() transitions.
    Returns ("invalid", reason) or ("ok", n_warnings, detail)."""
    nonfinal = [s for s in range(n) if s not in final]
    full = [(i, j) for (i, j, _int) in edges]
    for t in any_targets:
        full.extend((s, t) for s in nonfinal)
    has_events = bool(edges) or bool(any_targets) or bare_event
    if n == 0 and not has_events:
        return ("abstract",)
    if n == 0:
        return ("invalid", "no-states")
    if not has_events:
        return ("invalid", "no-events")
    if any(internal and i != j for (i, j, internal) in edges):
        return ("invalid", "internal-non-self")
    if len(initial) != 1:
        return ("invalid", "initial-count")
    if any(i in final for (i, j) in full):
        return ("invalid", "edge-from-final")
    succ = {s: set() for s in range(n)}
    for i, j in full:
        succ[i].add(j)

    def reach(start):
        seen = {start}
        stack = [start]
        while stack:
            x = stack.pop()
            for y in succ[x]:
                if y not in seen:
                    seen.add(y)
                    stack.append(y)
        return seen

    (init,) = tuple(initial)
    if reach(init) != set(range(n)):
        return ("invalid", "unreachable")
    traps = [s for s in nonfinal if not succ[s]]
    nopath = []
    if final:
        nopath = [s for s in nonfinal if not (reach(s) & set(final))]
    if strict and (traps or nopath):
        return ("invalid", "strict-trap" if traps else "strict-nopath")
    return ("ok", (1 if traps else 0) + (1 if nopath else 0), {"traps": traps, "nopath": nopath})


# ----------------------------------------------------------------------------- rendering
def render(n, edges, initial, final, strict, style, any_targets=(), bare_event=False):
    """style = <transition style>[+names][+enum|+dict]: `names` gives several states the same display
    name, `enum` declares the states through States.from_enum over an IntEnum that starts at 0 (a single
    final state is passed as a scalar), `dict` through States({...})."""
    style, *mods = style.split("+")
    sub = "sub" in mods
    lines = [
        # `sub`: the graph is declared in a base class; the class under test only inherits it (and is the
        # one that asks for strict_states)
        "class %s(StateMachine%s):" % ("Base" if sub else "M", ", strict_states=True" if (strict and not sub) else ""),
    ]
    pre = ""
    if "enum" in mods:
        pre = "_S."
        lines = ["class E(enum.IntEnum):"] + [f"    s{s} = {s}" for s in range(n)] + [""] + lines
        kw = []
        if len(initial) == 1:
            kw.append(f"initial=E.s{next(iter(initial))}")
        if len(final) == 1:
            kw.append(f"final=E.s{next(iter(final))}")
        elif final:
            kw.append("final=[" + ", ".join(f"E.s{s}" for s in sorted(final)) + "]")
        lines.append(f"    _S = States.from_enum(E, {', '.join(kw)})")
    else:
        decls = []
        for s in range(n):
            flags = []
            if "names" in mods:
                flags.append(repr("Step" if s % 3 != 2 else "Other"))
            if s in initial:
                flags.append("initial=True")
            if s in final:
                flags.append("final=True")
            if "vals" in mods:
                # explicit values; `eqvals`: some states carry EQUAL values (1 / 1.0 / True), which the
                # statement does not make ill-formed -- every rule is about states, not values
                flags.append("value=%s" % (VALS_EQ if "eqvals" in mods else VALS)[s % 5])
            decls.append((f"s{s}", f"State({', '.join(flags)})"))
        if "dict" in mods:
            pre = "_S."
            lines.append("    _S = States({" + ", ".join(f"{k_!r}: {v_}" for k_, v_ in decls) + "})")
        else:
            lines += [f"    {k_} = {v_}" for k_, v_ in decls]
    k = 0
    if style == "per_edge":
        for i, j, internal in edges:
            kw = ", internal=True" if internal else ""
            lines.append(f"    e{k} = {pre}s{i}.to({pre}s{j}{kw})")
            k += 1
    elif style == "from":
        for i, j, internal in edges:
            kw = ", internal=True" if internal else ""
            lines.append(f"    e{k} = {pre}s{j}.from_({pre}s{i}{kw})")
            k += 1
    elif style == "one_event":
        if edges:
            parts = [
                f"{pre}s{i}.to({pre}s{j}{', internal=True' if internal else ''})" for i, j, internal in edges
            ]
            lines.append("    go = (" + " | ".join(parts) + ")")
    elif style == "multi_target":
        # group by source, non-internal edges in one call; internal separately
        by_src = {}
        for i, j, internal in edges:
            by_src.setdefault((i, internal), []).append(j)
        for (i, internal), js in by_src.items():
            kw = ", internal=True" if internal else ""
            lines.append(f"    e{k} = {pre}s{i}.to({', '.join('%ss%d' % (pre, j) for j in js)}{kw})")
            k += 1
    elif style == "event_kw":
        for i, j, internal in edges:
            kw = ", internal=True" if internal else ""
            lines.append(f"    {pre}s{i}.to({pre}s{j}, event='ev{k}'{kw})")
            k += 1
    else:
        raise ValueError(style)
    for t in any_targets:
        lines.append(f"    any{k} = {pre}s{t}.from_.any()")
        k += 1
    if bare_event:
        lines.append("    bare = Event()")
    if lines[-1].startswith(("class M(", "class Base(")):
        lines.append("    pass")
    if sub:
        lines += ["", "class M(Base%s):" % (", strict_states=True" if strict else ""), "    pass"]
    return "\n".join(lines) + "\n"


VALS = ["10", "'b'", "0", "2.5", "''"]
VALS_EQ = ["1", "1.0", "True", "'x'", "'x'"]
STYLES = ["per_edge", "from", "one_event", "multi_target", "event_kw"]


def execute(src):
    """Run one class statement against the real library. Returns (outcome, n_userwarnings, info)."""
    from statemachine import State, StateMachine
    from statemachine.event import Event
    from statemachine.exceptions import InvalidDefinition

    import enum

    from statemachine.states import States

    ns = {"State": State, "StateMachine": StateMachine, "Event": Event, "States": States, "enum": enum, "__name__": "vmon_c09"}
    with warnings.catch_warnings(record=True) as rec:
        warnings.simplefilter("always")
        try:
            exec(compile(src, "<c09>", "exec"), ns)
        except InvalidDefinition as err:
            return "invalid", 0, str(err)[:200]
        except Exception as err:  # any other exception type is itself a finding
            return "error:" + type(err).__name__, 0, str(err)[:200]
    uw = [w for w in rec if issubclass(w.category, UserWarning)]
    cls = ns["M"]
    if getattr(cls, "_abstract", False):
        try:
            cls()
        except InvalidDefinition:
            return "abstract", len(uw), ""
        except Exception as err:
            return "error:" + type(err).__name__, len(uw), str(err)[:200]
        return "abstract-instantiable", len(uw), ""
    return "ok", len(uw), [str(w.message)[:160] for w in uw]


def judge(case, counters, violations, samples, sigs):
    n, edges, initial, final, strict, style, any_targets, bare_event = case
    exp = oracle(n, edges, initial, final, strict, any_targets, bare_event)
    src = render(n, edges, initial, final, strict, style, any_targets, bare_event)
    got, nwarn, info = execute(src)
    counters["evaluated"] += 1
    key = (n, tuple(sorted(edges)), tuple(sorted(initial)), tuple(sorted(final)), strict,
           tuple(sorted(any_targets)), bare_event)
    if n >= 2:
        sigs.add(hashlib.sha1(repr(key).encode()).hexdigest()[:12])
    bad = None
    if exp[0] == "invalid":
        counters["rejected"] += got == "invalid"
        counters["reason_" + exp[1]] = counters.get("reason_" + exp[1], 0) + 1
        if got != "invalid":
            bad = (f"oracle-invalid({exp[1]})-observed-{got}", "C09.accept-iff")
    elif exp[0] == "abstract":
        if got != "abstract":
            bad = (f"oracle-abstract-observed-{got}", "C09.accept-iff")
    else:
        counters["accepted"] += got == "ok"
        if got != "ok":
            why = "strict?" if strict else ""
            bad = (f"oracle-ok-observed-{got}{why}", "C09.accept-iff")
        elif bool(nwarn) != bool(exp[1]):
            # the statement fixes whether a warning is emitted, not how many messages carry it
            bad = (f"warning-expected-{bool(exp[1])}-observed-{nwarn}", "C09.warn-iff")
        if exp[1]:
            counters["warned"] += 1
    if bad:
        violations.append({
            "mechanism": bad[0], "rule": bad[1],
            "detail": f"oracle={exp} observed={(got, nwarn, info)}",
            "witness": {"source": src, "case": [n, edges, sorted(initial), sorted(final), strict,
                                                 style, list(any_targets), bare_event]},
        })
    elif len(samples) < 2 and n >= 2 and (counters["evaluated"] % 97 == 1):
        samples.append({"source": src, "oracle": exp, "observed": [got, nwarn, info]})


def all_cases_exhaustive(n, part, parts, fixed_initial=False, mods=""):
    pairs = [(i, j) for i in range(n) for j in range(n)]
    flagsets = [frozenset(c) for r in range(n + 1) for c in itertools.combinations(range(n), r)]
    inits = [frozenset([0])] if fixed_initial else flagsets
    idx = 0
    for mask in range(1 << len(pairs)):
        if mask % parts != part:
            continue
        edges = [(i, j, False) for b, (i, j) in enumerate(pairs) if mask >> b & 1]
        for init in inits:
            for fin in flagsets:
                for strict in (False, True):
                    style = STYLES[idx % len(STYLES)]
                    idx += 1
                    yield (n, edges, init, fin, strict, style + mods, (), False)


def sampled_case(rng):
    n = rng.choice([3, 4, 4, 5, 5])
    pairs = [(i, j) for i in range(n) for j in range(n)]
    density = rng.choice([0.1, 0.2, 0.3, 0.5])
    r = rng.random()
    if r < 0.8:
        init = frozenset([rng.randrange(n)])
    elif r < 0.9:
        init = frozenset()
    else:
        init = frozenset(rng.sample(range(n), 2))
    fin = frozenset(s for s in range(n) if rng.random() < rng.choice([0.0, 0.2, 0.4]))
    edges = []
    wellformed_bias = rng.random() < 0.6 and len(init) == 1
    if wellformed_bias:
        # random arborescence from the initial state so that many cases are (nearly) valid
        order = list(range(n))
        rng.shuffle(order)
        (root,) = tuple(init)
        order.remove(root)
        placed = [root]
        for s in order:
            srcs = [p for p in placed if p not in fin] or placed
            edges.append((rng.choice(srcs), s, False))
            placed.append(s)
    for (i, j) in pairs:
        if rng.random() < density:
            if wellformed_bias and i in fin and rng.random() < 0.85:
                continue
            internal = rng.random() < (0.15 if i == j else 0.02)
            edges.append((i, j, internal))
            if rng.random() < 0.1:
                edges.append((i, j, False))  # duplicate (multiset)
    rng.shuffle(edges)
    any_targets = ()
    if rng.random() < 0.25:
        any_targets = tuple(rng.sample(range(n), rng.choice([1, 1, 2])))
    bare = rng.random() < 0.1
    if rng.random() < 0.03:
        edges = []
    strict = rng.random() < 0.5
    style = rng.choice(STYLES)
    r = rng.random()
    if r < 0.12:
        style += "+names"
    elif r < 0.24 and len(init) == 1:       # from_enum takes exactly one initial member
        style += "+enum"
    elif r < 0.32:
        style += "+dict" + ("+names" if rng.random() < 0.3 else "")
    elif r < 0.42:
        style += "+sub"
    elif r < 0.54:
        style += "+vals" + ("+eqvals" if rng.random() < 0.6 else "")
    return (n, edges, init, fin, strict, style, any_targets, bare)


def plan(tier, seed):
    shards = []
    P = 16
    if tier == "quick":
        shards.append({"kind": "specials"})
        shards.append({"kind": "exh", "n": 1, "part": 0, "parts": 1})
        shards.append({"kind": "exh", "n": 2, "part": 0, "parts": 1})
        shards.append({"kind": "exh", "n": 2, "part": 0, "parts": 1, "mods": "+vals+eqvals"})
        shards.append({"kind": "exh", "n": 2, "part": 0, "parts": 1, "mods": "+vals"})
        for p in range(P):
            shards.append({"kind": "exh", "n": 3, "part": p, "parts": P})
        for p in range(P):
            shards.append({"kind": "sample", "count": 1500, "seed": seed * 1000 + p})
    else:
        shards.append({"kind": "specials"})
        shards.append({"kind": "exh", "n": 1, "part": 0, "parts": 1})
        shards.append({"kind": "exh", "n": 2, "part": 0, "parts": 1})
        shards.append({"kind": "exh", "n": 2, "part": 0, "parts": 1, "mods": "+vals+eqvals"})
        shards.append({"kind": "exh", "n": 2, "part": 0, "parts": 1, "mods": "+vals"})
        for p in range(P):
            shards.append({"kind": "exh", "n": 3, "part": p, "parts": P})
        for p in range(64):
            shards.append({"kind": "exh", "n": 4, "part": p, "parts": 64, "fixed_initial": True})
        for p in range(32):
            shards.append({"kind": "sample", "count": 8000, "seed": seed * 1000 + p})
    return shards


def run_shard(desc):
    counters = {"evaluated": 0, "accepted": 0, "rejected": 0, "warned": 0}
    violations, samples, sigs = [], [], set()
    if desc["kind"] == "specials":
        for body, expect in SPECIALS:
            src = "class M(StateMachine):\n" + body
            got, nwarn, info = execute(src)
            counters["evaluated"] += 1
            counters["specials"] = counters.get("specials", 0) + 1
            if got != expect:
                violations.append({
                    "mechanism": f"special-expected-{expect}-observed-{got}", "rule": "C09.accept-iff",
                    "detail": info, "witness": {"source": src},
                })
        exhaustive = True
    elif desc["kind"] == "exh":
        for case in all_cases_exhaustive(desc["n"], desc["part"], desc["parts"], desc.get("fixed_initial", False),
                                         desc.get("mods", "")):
            judge(case, counters, violations, samples, sigs)
        counters[f"exhaustive_n{desc['n']}{desc.get('mods', '').replace('+', '_')}_cases"] = counters["evaluated"]
        exhaustive = True
    else:
        rng = random.Random(desc["seed"])
        for _ in range(desc["count"]):
            judge(sampled_case(rng), counters, violations, samples, sigs)
        counters["sampled_cases"] = counters["evaluated"]
        exhaustive = None
    # cap violations per shard, keep distinct mechanisms
    seen = {}
    for v in violations:
        seen.setdefault(v["mechanism"], []).append(v)
    violations = [v for vs in seen.values() for v in vs[:3]]
    res = {
        "evaluations": counters["evaluated"], "signatures": sorted(sigs), "samples": samples,
        "counters": counters, "violations": violations,
    }
    return res


def finalize(tier, seed, results, counters):
    counters["exhaustive_scope"] = (
        "all edge sets x initial subsets x final subsets x strict for n<=3"
        + ("; n=4 with initial={s0}" if tier == "thorough" else "")
    )
    return {}


def replay(witness):
    w = witness["witness"]
    counters = {"evaluated": 0, "accepted": 0, "rejected": 0, "warned": 0}
    violations, samples, sigs = [], [], set()
    if "case" in w:
        n, edges, init, fin, strict, style, any_targets, bare = w["case"]
        case = (n, [tuple(e) for e in edges], frozenset(init), frozenset(fin), strict, style,
                tuple(any_targets), bare)
        judge(case, counters, violations, samples, sigs)
    return {"evaluations": 1, "violations": violations, "counters": counters}
