"""C17 — deepcopy / pickle clones are equivalent and independent."""
from vmon import family as F
from vmon import gen
from vmon.model import check_log
from vmon.run import Scenario
from props import c10

META = {
    "level": "exploration",
    "technique": "online trace checker on original and clone (two recorded histories, one reference each from the copy point) + identity checks of every callback's machine/provider object",
    "rule": (
        "cases = generated machines (all option combinations rtc x allow_event_without_transition, custom "
        "attribute, model and listeners with callbacks, listeners given at construction and added later, "
        "events bound onto the model) copied with copy.deepcopy or a pickle round trip at a random point "
        "of a random history (incl. before initial activation of an async machine); at copy time the clone "
        "must be in the same state with equal options / custom attributes and its own model and listener "
        "objects; afterwards original and clone are driven alternately with diverging suffixes of 3-10 "
        "events each: both histories must match the reference from the copy point, every callback must run "
        "on its own instance's objects. "
        "typed and falsy state values, value-object (equal / unhashable) listeners, listeners attached through add_observer, public and _private custom attributes. "
        "start_value (also on clones of not yet activated machines), falsy listeners. "
        "distinct_nontrivial = distinct (copy point class, mechanism, options, "
        "engine, late listeners, bound model) observed."
    ),
    "assumptions": ["listener objects of the clone are located through the machine's listener registry (a private attribute) to check object identity; when unavailable only behaviour is compared"],
    "must_observe": ["clones", "events_executed", "other_instance_events", "other_instance_callbacks"],
    "shard_timeout": {"quick": 900, "thorough": 3400},
}

PROFILE = {"n_states": (2, 5), "n_events": (1, 3), "extra_transitions": (1, 5), "p_multi_event": 0.2,
           "p_guard": 0.3, "p_validator": 0.08, "p_conv": 0.25, "p_inline": 0.3, "p_deco": 0.1,
           "providers": ["sm", "model", "l0", "l1"], "p_any": 0.15, "p_nested": 0.15, "nested_max": 1,
           "guard_kinds": ["method", "method", "prop"]}


def make_case(rng, i):
    prof = dict(PROFILE)
    prof["async_mode"] = rng.choice(["none", "none", "none", "all", "half"])
    spec = gen.gen_spec(rng, prof)
    typed = rng.random() < 0.4
    if typed:
        c10.assign_values(rng, spec)     # falsy / typed state values (0, '', enum members, tuples) travel with the copy
    # listeners that are value objects (compare equal to each other; possibly unhashable)
    spec["eq_listeners"] = rng.choice([False, False, False, True, "unhashable"])
    spec["falsy_listeners"] = rng.choice([None, None, None, None, "len", "bool"])
    if rng.random() < 0.2:
        spec["model_shape"] = rng.choice(["falsy_len", "falsy_bool", "libmodel"])     # a model that is falsy when the copy is taken
    listeners = [p for p in spec["providers"] if p not in ("sm", "model")]
    late = [l for l in listeners if rng.random() < 0.3]
    # late listeners must keep the engine choice stable (W7 is C12's): make them sync on sync machines
    for l in late:
        spec["providers"].remove(l)
        spec["late"].append(l)
    early_async = any(cb["async"] for cb in spec["cbs"].values() if cb["provider"] in spec["providers"]) or any(
        g.get("async") for g in spec["guards"].values()) or any(v.get("async") for v in spec["validators"].values())
    if not early_async:
        for cb in spec["cbs"].values():
            if cb["provider"] in late:
                cb["async"] = False
    spec["any_async"] = early_async
    if early_async:
        spec["opts"]["rtc"] = True
        for cb in spec["cbs"].values():
            if not cb["async"]:
                cb["script"].pop("sends", None)
    # names referenced inline need an early provider
    referenced = {r["name"] for t in spec["transitions"] for g in t["refs"].values() for r in g if r["by"] == "name"}
    referenced |= {r["name"] for refs in spec["state_refs"].values() for g in refs.values() for r in g if r["by"] == "name"}
    k = 0
    for nm in sorted(referenced):
        provs = {cb["provider"] for cb in spec["cbs"].values() if cb["name"] == nm}
        if provs and not (provs & set(spec["providers"])):
            k += 1
            spec["cbs"][f"cx{k}"] = {"name": nm, "provider": "sm", "kind": "method", "async": False, "script": {"ret": "sent"}}
    bound = rng.random() < 0.25 and "model" in spec["providers"] and not any(
        cb["provider"] == "model" and cb["name"] in spec["events"] for cb in spec["cbs"].values())
    steps = [{"op": "construct", "val": gen.gen_valuation(rng, spec)}]
    if rng.random() < 0.3:
        tgt = rng.choice([s_["id"] for s_ in spec["states"]])
        steps[0].update(start=tgt, start_expr=c10.value_expr(spec, tgt))
    before_activation = spec["any_async"] and rng.random() < 0.3
    if spec["any_async"] and not before_activation:
        steps.append({"op": "activate"})
    if bound:
        steps.append({"op": "bind_model"})
    hist = gen.gen_history(rng, spec, rng.randint(3, 10), p_unknown=0.03)
    copy_at = 0 if before_activation else rng.randint(0, len(hist))
    how = rng.choice(["deepcopy", "pickle"])
    attached = list(spec["providers"])
    out = []
    late_marks = {rng.randint(0, max(0, copy_at)): l for l in late}
    for idx, st in enumerate(hist[:copy_at]):
        if idx in late_marks:
            out.append({"op": "add_listener", "providers": [late_marks[idx]], "via": rng.choice(["listener", "listener", "observer"])})
            attached.append(late_marks[idx])
        out.append(st)
    out.append({"op": "other", "action": "clone", "how": how, "active": attached})
    # diverging suffixes
    styles = ("send", "method") + (("model_bound", "model_bound") if bound else ())
    sa = gen.gen_history(rng, spec, rng.randint(3, 10), p_unknown=0.03, styles=styles)
    sb = gen.gen_history(rng, spec, rng.randint(3, 10), p_unknown=0.03, styles=styles)
    if before_activation and rng.random() < 0.5:
        sb.insert(0, {"op": "other", "action": "activate"})
    while sa or sb:
        if sa and (not sb or rng.random() < 0.5):
            out.append(sa.pop(0))
        else:
            st = sb.pop(0)
            if st.get("op") == "other":
                out.append(st)
            else:
                out.append({"op": "other", "action": "send", "event": st["event"], "style": st.get("style", "send"),
                            "val": st.get("val"), "args": st.get("args", []), "kwargs": st.get("kwargs", {})})
    steps += out
    driver = rng.choice(["sync", "inloop"]) if spec["any_async"] else "sync"
    return {"scenario": Scenario(spec, steps, driver), "how": how, "value_of": c10.make_value_of(spec), "copy_class": "before-activation" if before_activation else
            ("start" if copy_at == 0 else ("end" if copy_at == len(hist) else "middle")), "bound": bound, "late": bool(late)}


def owns(rule, flags):
    return True


def classify(case, rule, detail, log, fault, ck):
    if case["copy_class"] == "before-activation":
        return "copy-of-unactivated-async-machine:" + rule.split(".")[0].split(":")[0]
    return rule


def extra_check(case, run, log, ck, fault):
    other_log = getattr(run, "other_log", None)
    if not other_log:
        return None
    rej, ck2 = check_log(case["scenario"].spec, other_log, value_of=case.get("value_of"))
    case["_counters"] = {"other_instance_events": ck2.stats["events_executed"] + ck2.stats["not_allowed"] + ck2.stats["ignored"]}
    if rej is not None:
        return ("C17.clone-behaviour:" + rej.rule, "the clone deviates from the reference after the copy point: " + rej.detail, None)
    softs = getattr(ck2, "softs", [])
    if softs:
        return ("C17.clone-behaviour:" + softs[0][0], softs[0][1], None)
    return None


def signature(case, ck, log, fault):
    sp = case["scenario"].spec
    return [(case["copy_class"], case["how"], sp["opts"]["rtc"], sp["opts"]["allow"], sp["any_async"], case["late"], case["bound"])]


def plan(tier, seed):
    return F.std_plan(tier, seed, 2560, 30000)


def run_shard(desc):
    return F.explore(desc, make_case, owns, signature, classify=classify, extra_check=extra_check)


def replay(witness):
    return F.replay_case(witness, owns, value_of=c10.make_value_of(witness["witness"]["scenario"]["spec"]))
