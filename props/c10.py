"""C10 — the current state is exactly what the user's model stores."""
from vmon import family as F
from vmon import gen
from vmon.run import Scenario

META = {
    "level": "exploration",
    "technique": "online trace checker + probes of model field / current_state / current_state_value / is_active after every step and inside every callback",
    "rule": (
        "cases = generated machines whose state values are str (incl ''), int (incl 0, negatives), enum (also States.from_enum(use_enum_instance=True) over an Enum with a falsy member) "
        "members, tuples or mixed, several states sharing one display name, over model shapes default / "
        "class attribute / instance attribute / missing attribute / property-backed / falsy (__len__==0, "
        "__bool__ False), arbitrary state_field, start_value = any state's value, stored values; histories "
        "mix events with external writes of valid values on the model, current_state_value= / "
        "current_state= writes and unmapped values through the setter. After every step and inside "
        "every callback: model field == reference value (repr, i.e. value and type), current_state(.value)"
        " and current_state_value agree, exactly one is_active, sm.model is the user's object. "
        ""
        "the library's default model with a custom state_field; stored state together with start_value; assignment of a State of another class. "
        "Unmapped values put into the model behind the machine's back (is_active must not read 'nothing active'), a look-alike State of another class assigned to current_state. "
        "distinct_nontrivial = distinct (value kind, model shape, state_field, write kinds used, "
        "start/stored, falsy value reached) combinations observed."
    ),
    "assumptions": [
        "state values of one machine are pairwise != (so the value->state map is injective)",
        "unmapped values are only written through the machine's setters (a direct write of garbage on the model is the user's fault)",
    ],
    "must_observe": ["external_writes", "invalid_writes", "events_executed", "falsy_value_states", "writes_in_flight"],
    "shard_timeout": {"quick": 900, "thorough": 3400},
}

PROFILE = {"n_states": (2, 5), "n_events": (1, 3), "extra_transitions": (1, 5), "p_guard": 0.15,
           "p_validator": 0.0, "p_conv": 0.12, "p_inline": 0.15, "p_deco": 0.05, "providers": ["sm", "model", "l0"],
           "p_any": 0.1, "p_internal": 0.5, "p_self": 0.3}

STR_POOL = ['""', '"a"', '"draft"', '"x y"', '"0"', '"None"', '"S0"']
INT_POOL = ["0", "-1", "1", "2", "10", "-7", "100"]
TUP_POOL = ["()", "(0,)", "(1, 2)", "('a',)", "(0, 0)", "(None,)"]
MIXED_POOL = ['""', "0", '"a"', "()", "-1", "(0,)", '"0"', "2.5"]
SHAPES = ["attr", "attr", "instance_attr", "missing", "property", "falsy_len", "falsy_bool", "default", "libmodel"]


def assign_values(rng, spec):
    kind = rng.choice(["default", "str", "int", "int", "enum", "tuple", "mixed", "enum_inst"])
    n = len(spec["states"])
    uid = spec["uid"]
    if kind == "enum_inst" and (spec.get("style") or spec.get("mixin") or any(s.get("name") for s in spec["states"]) or any(
            refs[g] for refs in spec["state_refs"].values() for g in refs)):
        kind = "enum"       # from_enum cannot carry inline enter/exit callbacks or display names
    exprs = [None] * n
    if kind == "str":
        exprs = rng.sample(STR_POOL, n)
    elif kind == "int":
        exprs = rng.sample(INT_POOL, n)
    elif kind == "tuple":
        exprs = rng.sample(TUP_POOL, n)
    elif kind == "mixed":
        exprs = rng.sample(MIXED_POOL, n)
    elif kind == "enum":
        spec["prelude"] = ["import enum", f"class Color_{uid}(enum.Enum):"] + [f"    m{i} = {i}" for i in range(n)] + [""]
        exprs = [f"Color_{uid}.m{i}" for i in range(n)]
    elif kind == "enum_inst":
        # States.from_enum(E, use_enum_instance=True): the values are the Enum members, one of them falsy
        spec["style"] = {"states": "enum", "enum_inst": rng.choice(spec["states"])["id"]}
        exprs = [f"StEnum_{uid}.{st['id']}" for st in spec["states"]]
    for st, e in zip(spec["states"], exprs):
        st["value"] = {"expr": e} if e is not None else None
    if rng.random() < 0.3 and n >= 2 and kind != "enum_inst":
        a, b = rng.sample(range(n), 2)
        spec["states"][a]["name"] = "Same name"
        spec["states"][b]["name"] = "Same name"
    spec["value_kind"] = kind
    return kind


class _Named:
    def __init__(self, text):
        self.text = text

    def __repr__(self):
        return self.text


def make_value_of(spec):
    if spec.get("value_kind") == "enum_inst":
        table = {st["id"]: _Named("EI." + st["id"]) for st in spec["states"]}
        return lambda sid: table.get(sid)
    ns = {}
    if spec.get("prelude"):
        exec("\n".join(spec["prelude"]), ns)  # noqa: S102
    table = {}
    for st in spec["states"]:
        table[st["id"]] = eval(st["value"]["expr"], ns) if st.get("value") else st["id"]  # noqa: S307
    return lambda sid: table.get(sid)


def value_expr(spec, sid):
    st = next(s for s in spec["states"] if s["id"] == sid)
    return st["value"]["expr"] if st.get("value") else repr(sid)


def make_case(rng, i):
    prof = dict(PROFILE)
    prof["async_mode"] = rng.choice(["none", "none", "none", "all", "half"])
    spec = gen.gen_spec(rng, prof)
    kind = assign_values(rng, spec)
    shape = rng.choice(SHAPES)
    spec["model_shape"] = shape
    if shape == "default":
        spec["providers"] = [p for p in spec["providers"] if p != "model"]
        spec["cbs"] = {c: cb for c, cb in spec["cbs"].items() if cb["provider"] != "model"}
        names = {cb["name"] for cb in spec["cbs"].values()}

        def keep(r):
            return (r["by"] == "obj" and r["cb"] in spec["cbs"]) or (r["by"] == "name" and r["name"] in names)

        for t in spec["transitions"]:
            for g in t["refs"]:
                t["refs"][g] = [r for r in t["refs"][g] if keep(r)]
        for s_, refs in spec["state_refs"].items():
            for g in refs:
                refs[g] = [r for r in refs[g] if keep(r)]
    spec["state_field"] = rng.choice(["state", "state", "st", "status_code", "workflow_step"])
    sids = [s["id"] for s in spec["states"]]
    construct = {"op": "construct", "val": gen.gen_valuation(rng, spec)}
    r = rng.random()
    if r < 0.3:
        tgt = rng.choice(sids)
        construct["start"] = tgt
        construct["start_expr"] = value_expr(spec, tgt)
    elif r < 0.45 and shape != "default":
        tgt = rng.choice(sids)
        construct["stored"] = tgt
        construct["stored_expr"] = value_expr(spec, tgt)
        if rng.random() < 0.5:
            # a start_value given together with a stored state: the model's value is the current state
            alt = rng.choice(sids)
            construct["start"] = alt
            construct["start_expr"] = value_expr(spec, alt)
    steps = [construct]
    if spec["any_async"]:
        steps.append({"op": "activate"})
    hist = gen.gen_history(rng, spec, rng.randint(4, 14), p_unknown=0.03)
    for st in hist:
        if rng.random() < 0.3:
            r = rng.random()
            if r < 0.8:
                tgt = rng.choice(sids)
                steps.append({"op": "write", "kind": rng.choice(["model", "csv", "cs"]), "target": tgt,
                              "value_expr": value_expr(spec, tgt), "valid": True})
            elif r < 0.93:
                steps.append({"op": "write", "kind": rng.choice(["csv", "csv", "model_garbage"]), "target": None, "valid": False,
                              "value_expr": rng.choice(['"zz_unmapped"', "12345", "None", "('nope',)", "-99"])})
            else:
                # a State object that does not belong to this machine, through the current_state setter
                if rng.random() < 0.5:
                    steps.append({"op": "write", "kind": "cs_foreign", "target": None, "valid": False})
                else:
                    # ... or one that LOOKS like a state of this machine (same id and display name, e.g.
                    # from another class) but carries a value this machine does not map
                    steps.append({"op": "write", "kind": "cs_lookalike", "target": None, "like": rng.choice(sids), "valid": False})
        steps.append(st)
    driver = rng.choice(["sync", "inloop"]) if spec["any_async"] else "sync"
    # some callbacks write another valid value to the model field while their transition is in flight
    for cid, cb in spec["cbs"].items():
        if rng.random() < 0.1:
            cb["script"]["write"] = rng.choice(sids)
    return {"scenario": Scenario(spec, steps, driver), "value_of": make_value_of(spec), "kind": kind, "shape": shape}


def owns(rule, flags):
    # (an exception while the machine stores its first state in the user's model is C10's too)
    return rule.startswith("C10.") or rule in ("C11.resume-untouched", "construct.raised") or (
        rule == "C01.exception-type" and bool(flags.get("in_initial")))


def classify(case, rule, detail, log, fault, ck):
    return rule


def signature(case, ck, log, fault):
    sc = case["scenario"]
    writes = sorted({(s["kind"], s.get("valid", True)) for s in sc.steps if s["op"] == "write"})
    c0 = sc.steps[0]
    falsy = ("''", "0", "()", "0.0", "EI." + str((sc.spec.get("style") or {}).get("enum_inst")))
    falsy_reached = any(e.get("field") in falsy for e in log if e["k"] == "step" and e.get("op") == "probe")
    if falsy_reached:
        case["_counters"] = {"falsy_value_states": 1}
    return [(case["kind"], case["shape"], sc.spec["state_field"] != "state", writes, "start" in c0, "stored" in c0,
             falsy_reached, sc.spec["any_async"])]


def plan(tier, seed):
    return F.std_plan(tier, seed, 6400, 60000)


def run_shard(desc):
    out = F.explore(desc, make_case, owns, signature, classify=classify)
    return out


def replay(witness):
    from vmon.run import Scenario as S

    w = witness["witness"]
    spec = w["scenario"]["spec"]
    return F.replay_case(witness, owns, value_of=make_value_of(spec))
