"""C11 — initial activation happens once; a stored state is resumed untouched."""
from vmon import family as F
from vmon import gen
from vmon.run import Scenario
from props import c10, c13

META = {
    "level": "exploration",
    "technique": "online trace checker over construction / activation / restart steps",
    "rule": (
        "cases = generated machines constructed over an empty model (initial or start_value state must be "
        "entered exactly once, running only that state's enter callbacks under '__initial__', which may "
        "send events) or over a model holding any state of the machine (no callback may run, stored "
        "value untouched, behaviour resumes from it); 0-3 explicit re-activations at random points, "
        "1-3 re-constructions over the same model after arbitrary histories (restart), sync/async "
        "(activation before the first event or on explicit activate), rtc on/off, events before/after "
        "explicit activation. "
        "8% of the models are class Row(MachineMixin, Record) whose Record.__init__ receives the stored state. "
        "Probes: stored values equal-but-not-identical to a state's value over a write-counting record; instances of one class differing in coroutine listeners, in any creation order; a rejected construction stores nothing and runs nothing; activation must be awaitable inside a loop. "
        "distinct_nontrivial = distinct (stored state | start | empty, restart count, "
        "re-activations, engine, rtc, driver) combinations."
    ),
    "assumptions": ["40% of the machines use typed / falsy state values (C10's value generator), the rest the default ids"],
    "must_observe": ["initial_activations", "restarts", "resumes", "events_executed"],
    "shard_timeout": {"quick": 900, "thorough": 3400},
}

PROFILE = {"n_states": (2, 5), "n_events": (1, 3), "extra_transitions": (1, 5), "p_guard": 0.15,
           "p_validator": 0.0, "p_conv": 0.2, "p_inline": 0.25, "p_deco": 0.12, "providers": ["sm", "model", "l0"],
           "p_nested": 0.15, "nested_max": 1}


def make_case(rng, i):
    prof = dict(PROFILE)
    prof["async_mode"] = rng.choice(["none", "none", "all", "half", "one"])
    mixin = rng.random() < 0.08
    if mixin:
        prof.update(providers=["sm", "model"], rtc=True, allow=False)
    spec = gen.gen_spec(rng, prof)
    sids = [s["id"] for s in spec["states"]]
    if mixin:
        # MachineMixin listed first, next to a record class whose __init__ receives the stored state
        c13.django_once()
        spec["mixin"] = "first"
        if "model" not in spec["providers"]:
            spec["providers"].append("model")
    if not mixin and rng.random() < 0.12:
        spec["model_shape"] = "libmodel"     # the domain model is a subclass of statemachine.model.Model
    if rng.random() < 0.4 and not mixin:
        c10.assign_values(rng, spec)     # falsy / typed state values (0, '', enum members, tuples)
    vx = lambda sid: c10.value_expr(spec, sid)  # noqa: E731
    c = {"op": "construct", "val": gen.gen_valuation(rng, spec)}
    r = rng.random()
    if r < 0.35:
        tgt = rng.choice(sids)
        c.update(stored=tgt, stored_expr=vx(tgt))
    elif r < 0.55 and not mixin:
        tgt = rng.choice(sids)
        c.update(start=tgt, start_expr=vx(tgt))
    steps = [c]
    if not mixin and rng.random() < 0.1:
        # a construction of the same class over a bare model that is REJECTED (names missing) comes first:
        # it must store nothing and run nothing
        steps.insert(0, {"op": "other", "action": "construct_incomplete"})
    hist = gen.gen_history(rng, spec, rng.randint(3, 12), p_unknown=0.03)
    n_react = rng.choice([0, 0, 1, 2, 3])
    n_restart = rng.choice([0, 1, 1, 2, 3]) if not mixin else 0
    marks = sorted([(rng.randint(0, len(hist)), "activate") for _ in range(n_react)]
                   + [(rng.randint(1, len(hist)), "restart") for _ in range(n_restart)])
    out = []
    for idx, st in enumerate(hist + [None]):
        for pos, what in marks:
            if pos == idx:
                if what == "activate":
                    out.append({"op": "activate"})
                else:
                    rc = {"op": "construct", "reuse_model": True, "val": gen.gen_valuation(rng, spec)}
                    if rng.random() < 0.3:
                        tgt = rng.choice(sids)   # start_value must NOT override the stored state
                        rc.update(start=tgt, start_expr=vx(tgt))
                    if rng.random() < 0.3:
                        # a second machine of the same class over a fresh, empty model
                        rc = {"op": "construct", "reuse_class": True, "val": gen.gen_valuation(rng, spec)}
                        if rng.random() < 0.6:
                            tgt = rng.choice(sids)
                            rc.update(start=tgt, start_expr=vx(tgt))
                    out.append(rc)
        if st is not None:
            out.append(st)
    steps += out
    driver = rng.choice(["sync", "inloop"]) if spec["any_async"] else "sync"
    return {"scenario": Scenario(spec, steps, driver), "n_restart": n_restart, "n_react": n_react,
            "value_of": c10.make_value_of(spec)}


def owns(rule, flags):
    return rule.startswith("C11.") or bool(flags.get("in_initial"))


def signature(case, ck, log, fault):
    sc = case["scenario"]
    c0 = sc.steps[0]
    return [(c0.get("stored") or ("start:" + str(c0.get("start")) if c0.get("start") else "empty"), case["n_restart"],
             case["n_react"], sc.spec["any_async"], sc.spec["opts"]["rtc"], sc.driver)]


def plan(tier, seed):
    return F.std_plan(tier, seed, 4800, 50000) + [{"untouched": True, "seed": seed, "count": 200 if tier == "quick" else 4000},
                                                  {"engine": True, "seed": seed, "count": 60 if tier == "quick" else 600}]


UNTOUCHED_SRC = '''
import enum

class Level(enum.IntEnum):
    one = 1
    two = 2
    three = 3

class Row:
    """property-backed record: every write to the state column is counted"""
    def __init__(self, stored):
        self._stored = stored
        self.writes = []
    @property
    def state(self):
        return self._stored
    @state.setter
    def state(self, v):
        self.writes.append(v)
        self._stored = v

class M(StateMachine):
    a = State(value={va}, initial=True)
    b = State(value={vb})
    c = State(value={vc}, final=True)
    go = a.to(b) | b.to(c)
    def on_enter_state(self, *args, **kwargs):
        LOG.append("enter")
    {a}def on_go(self, *args, **kwargs):
        LOG.append("on_go")
'''


def run_untouched(desc):
    """A stored value that EQUALS a state's value without being the same object (2.0 for 2, True for 1,
    an IntEnum member for an int, a string built at run time) is resumed untouched: no write to the
    model, the very object stays stored, no callback runs; the first event then works as usual."""
    import asyncio
    import random
    import warnings

    from statemachine import State, StateMachine

    rng = random.Random(desc["seed"] * 31 + 7)
    counters = {"untouched_resumes": 0}
    violations, sigs = [], set()
    for _ in range(desc["count"]):
        kind = rng.choice(["int", "str", "intenum"])
        is_async = rng.random() < 0.3
        if kind == "int":
            vals = ["1", "2", "3"]
            mk = lambda i: rng.choice([float(i), True if i == 1 else float(i), i + 0.0])  # noqa: E731
        elif kind == "str":
            vals = ["'draft'", "'in review'", "'done'"]
            mk = lambda i: "".join(list(["draft", "in review", "done"][i - 1]))  # noqa: E731  (a new, equal string object)
        else:
            vals = ["1", "2", "3"]
            mk = None
        log = []
        ns = {"State": State, "StateMachine": StateMachine, "LOG": log, "__name__": "vmon_c11u"}
        src = UNTOUCHED_SRC.format(va=vals[0], vb=vals[1], vc=vals[2], a="async " if is_async else "")
        with warnings.catch_warnings():
            warnings.simplefilter("ignore")
            exec(compile(src, "<c11-untouched>", "exec"), ns)
            idx = rng.choice([1, 2, 3])
            stored = mk(idx) if mk else ns["Level"](idx)
            row = ns["Row"](stored)
            kw = {}
            if rng.random() < 0.3:
                kw["start_value"] = eval(vals[rng.randrange(3)])  # noqa: S307
            problems = []
            try:
                sm = ns["M"](row, **kw)
                if rng.random() < 0.5:
                    res = sm.activate_initial_state()
                    if asyncio.iscoroutine(res):
                        asyncio.run(res)
                if row.writes:
                    problems.append(f"the model was written to: {row.writes!r}")
                if row._stored is not stored:
                    problems.append(f"stored object replaced: {row._stored!r} (was {stored!r})")
                if log:
                    problems.append(f"callbacks ran at construction: {log}")
                if sm.current_state.id != "abc"[idx - 1]:
                    problems.append(f"current_state {sm.current_state.id} != {'abc'[idx - 1]}")
                if idx < 3:
                    sm.send("go")
                    if sm.current_state.id != "abc"[idx]:
                        problems.append(f"after go: {sm.current_state.id}")
            except Exception as err:  # noqa: BLE001
                problems.append(f"{type(err).__name__}: {err}"[:200])
        counters["untouched_resumes"] += 1
        sigs.add(F.h((kind, is_async, idx, type(stored).__name__, bool(kw))))
        if problems:
            violations.append({"mechanism": "equal-but-not-identical-stored-value", "rule": "C11.resume-untouched",
                               "detail": f"stored {stored!r} ({type(stored).__name__}) for state value {vals[idx - 1]}: " + "; ".join(problems),
                               "witness": {"source": src, "stored": repr(stored), "kwargs": {k: repr(v) for k, v in kw.items()}}})
    return {"evaluations": counters["untouched_resumes"], "signatures": sorted(sigs), "samples": [], "counters": counters,
            "violations": violations[:2]}


ENGINE_SRC = '''
class M(StateMachine):
    a = State(initial=True)
    b = State()
    go = a.to(b) | b.to(a)
    def on_enter_state(self, state):
        LOG.append(("sm", state.id))

class SyncL:
    def on_enter_state(self, state):
        LOG.append(("syncL", state.id))

class AsyncL:
    async def on_enter_state(self, state):
        LOG.append(("asyncL", state.id))
'''


def run_engine_per_instance(desc):
    """Instances of ONE class that differ in whether their listeners / model bring coroutine callbacks:
    each is activated the way its own callbacks require (at construction when all is synchronous; by
    the first event or explicit activation, with the coroutine awaited, otherwise) in any creation order."""
    import asyncio
    import random
    import warnings

    from statemachine import State, StateMachine

    rng = random.Random(desc["seed"] * 13 + 1)
    counters = {"engine_choice_sequences": 0}
    violations, sigs = [], set()
    for _ in range(desc["count"]):
        log = []
        ns = {"State": State, "StateMachine": StateMachine, "LOG": log, "__name__": "vmon_c11e"}
        exec(compile(ENGINE_SRC, "<c11-engine>", "exec"), ns)
        order = [rng.choice(["sync", "syncL", "asyncL"]) for _ in range(rng.randint(2, 4))]
        problems = []
        with warnings.catch_warnings():
            warnings.simplefilter("ignore")
            for k, kind in enumerate(order):
                del log[:]
                lst = {"sync": [], "syncL": [ns["SyncL"]()], "asyncL": [ns["AsyncL"]()]}[kind]
                try:
                    sm = ns["M"](listeners=lst)
                    want0 = [("sm", "a")] + ([("syncL", "a")] if kind == "syncL" else [])
                    if kind != "asyncL":
                        if sorted(log) != sorted(want0):
                            problems.append(f"#{k} {kind}: after construction callbacks {log}, expected {want0}")
                        if sm.current_state.id != "a":
                            problems.append(f"#{k} {kind}: not activated at construction")
                    else:
                        if log:
                            problems.append(f"#{k} {kind}: callbacks at construction {log} (coroutine callbacks need the loop)")
                        explicit = rng.random() < 0.5
                        if explicit:
                            res = sm.activate_initial_state()
                            if asyncio.iscoroutine(res):
                                asyncio.run(res)
                            if sorted(log) != [("asyncL", "a"), ("sm", "a")]:
                                problems.append(f"#{k} {kind}: explicit activation ran {log}")
                    init_seen = list(log)
                    del log[:]
                    sm.go()
                    want = [("sm", "b")] + ([(kind, "b")] if kind != "sync" else [])
                    got = [x for x in log if x[1] == "b"]
                    if sorted(got) != sorted(want) or sm.current_state.id != "b":
                        problems.append(f"#{k} {kind}: after go callbacks {log}, state {sm.current_state.id}; expected {want}")
                    if kind == "asyncL" and ("asyncL", "a") not in log + init_seen:
                        problems.append(f"#{k} {kind}: initial enter of the coroutine listener never ran ({init_seen} + {log})")
                except Exception as err:  # noqa: BLE001
                    problems.append(f"#{k} {kind}: {type(err).__name__}: {err}"[:200])
        counters["engine_choice_sequences"] += 1
        sigs.add(F.h(tuple(order)))
        if problems:
            violations.append({"mechanism": "engine-not-chosen-per-instance", "rule": "C11.initial-activation",
                               "detail": f"creation order {order}: " + "; ".join(problems)[:500], "witness": {"source": ENGINE_SRC, "order": order}})
    return {"evaluations": counters["engine_choice_sequences"], "signatures": sorted(sigs), "samples": [], "counters": counters,
            "violations": violations[:2]}


def run_shard(desc):
    if desc.get("engine"):
        return run_engine_per_instance(desc)
    if desc.get("untouched"):
        return run_untouched(desc)
    return F.explore(desc, make_case, owns, signature)


def replay(witness):
    return F.replay_case(witness, owns, value_of=c10.make_value_of(witness["witness"]["scenario"]["spec"]))
