"""C03 — run-to-completion: nested events are queued, FIFO, never interleaved."""
import random

from vmon import family as F

META = {
    "level": "exploration",
    "technique": "online trace checker over token-tagged histories (queue/FIFO/no-interleave rules) + call-stack depth probe on long chains",
    "rule": (
        "cases = generated machines whose callbacks (every group incl. initial enter, machine/model/"
        "listeners) send 0-2 nested events each (fan-out bounded per top-level step), sync and async "
        "engines, rtc on/off, plus self-triggering chains of 3000 links (rtc, both engines; depth must "
        "stay constant) and 40 links (rtc=False; depth must grow). Every send carries a unique token "
        "forwarded to all callbacks, so interleaving, FIFO order, nested return values and the "
        "outermost result are O(n) scans. "
        "20% of the machines in an alternative declaration style. "
        "Fan-out of 700 (thorough 5000) events queued by one callback, plain callbacks sending events on the async engine, suspending callbacks, histories that continue on a clone; every deviation inside a step with a nested send is owned. "
        "distinct_nontrivial = distinct (set of phases from which "
        "nested sends were issued, max queue length bucket, rtc, engine) with >=2 events queued at once."
    ),
    "assumptions": [
        "in async machines nested sends are issued from coroutine callbacks only (plain callbacks get a coroutine back: documented as not recommended, H7)",
    ],
    "must_observe": ["nested_sends", "events_executed", "results_checked", "chain_links"],
    "shard_timeout": {"quick": 900, "thorough": 3400},
}

PROFILE = {"n_states": (2, 5), "n_events": (1, 3), "extra_transitions": (1, 6), "p_multi_event": 0.2,
           "p_guard": 0.25, "p_validator": 0.0, "p_conv": 0.2, "p_inline": 0.3, "p_deco": 0.15,
           "providers": ["sm", "model", "l0"], "p_nested": 0.35, "nested_max": 2, "allow": True, "yields": 2, "p_unknown_nested": 0.08}


def owns(rule, flags):
    # after an injected failure the processing discipline must still hold for the following sends
    # ... and any deviation inside a step in which a callback sent an event (order and results ACROSS events)
    return rule.startswith("C03.") or bool(flags.get("after_failure")) or rule == "C04.quiescence" or bool(flags.get("nested_in_step"))


def make_case(rng, i):
    prof = dict(PROFILE)
    prof["allow"] = rng.random() < 0.85
    # plain callbacks of a machine on the async engine may send events too: the event is queued at the
    # call (the coroutine they get back is not theirs to await)
    prof["sync_sends_on_async"] = rng.random() < 0.3
    case = F.basic_case(rng, prof, hist=(3, 10), drivers=("sync", "inloop"), p_unknown=0.02,
                        async_modes=("none", "none", "all", "half"), p_style=0.2)
    case["send_budget"] = rng.choice([3, 6, 10])
    if rng.random() < 0.15:
        # one injected failure (Exception or BaseException, e.g. cancellation) somewhere in the history
        case["faults"] = [{"at": rng.randint(1, 25), "when": "after_sends", "exc": rng.choice(["plain", "base", "base"])}]
    return case


def signature(case, ck, log, fault):
    if ck.stats["queued_max"] < 2 and case["scenario"].spec["opts"]["rtc"]:
        return []
    eng = "async" if case["scenario"].spec["any_async"] else "sync"
    return [(sorted(getattr(ck, "send_phases", ())), min(ck.stats["queued_max"], 6), case["scenario"].spec["opts"]["rtc"], eng)]


def plan(tier, seed):
    shards = F.std_plan(tier, seed, 4800, 50000)
    shards.append({"chain": True, "tier": tier, "seed": seed})
    return shards


CHAIN_SRC = '''
class Chain_{k}(StateMachine):
    s0 = State(initial=True)
    go = s0.to.itself({place}="step")
    {a}def step(self, *args, **kwargs):
        n = kwargs.get("n", 0)
        DEPTHS.append((n, frame_depth()))
        if n < LIMIT:
            r = self.send("go", n=n + 1)
            {aw}
            RETS.append(r)
        return n
'''


def run_chain(desc):
    """Self-triggering chains: constant stack depth under rtc, growing depth with rtc=False."""
    import asyncio
    import inspect

    from statemachine import State, StateMachine
    from vmon.rec import frame_depth

    counters = {"chain_links": 0, "chains": 0}
    violations = []
    sigs = set()
    k = 0
    long_n = 3000 if desc["tier"] == "quick" else 6000
    for engine in ("sync", "async"):
        for place in ("after", "on", "before"):
            for rtc, limit in ((True, long_n), (False, 40)):
                if engine == "async" and not rtc:
                    continue
                k += 1
                depths, rets = [], []
                src = CHAIN_SRC.format(k=f"{k}_{engine}", place=place, a="async " if engine == "async" else "",
                                       aw="r = (await r) if inspect.isawaitable(r) else r" if engine == "async" else "pass")
                ns = {"State": State, "StateMachine": StateMachine, "DEPTHS": depths, "RETS": rets, "LIMIT": limit,
                      "frame_depth": frame_depth, "inspect": inspect, "__name__": "vmon_c03chain"}
                exec(compile(src, "<c03chain>", "exec"), ns)
                cls = ns[f"Chain_{k}_{engine}"]
                try:
                    sm = cls(rtc=rtc)
                    res = sm.send("go", n=0)
                except RecursionError as err:
                    violations.append({"mechanism": f"chain-recursion-{engine}-rtc{rtc}", "rule": "C03.constant-depth",
                                       "detail": f"RecursionError after {len(depths)} links: {err}", "witness": {"source": src, "limit": limit}})
                    continue
                except Exception as err:  # noqa: BLE001
                    violations.append({"mechanism": f"chain-raised-{engine}-rtc{rtc}", "rule": "C03.fifo",
                                       "detail": f"{type(err).__name__}: {err} after {len(depths)} links", "witness": {"source": src, "limit": limit}})
                    continue
                counters["chains"] += 1
                counters["chain_links"] += len(depths)
                sigs.add(F.h(("chain", engine, place, rtc)))
                ds = [d for _n, d in depths]
                if len(depths) != limit + 1 or [n for n, _d in depths] != list(range(limit + 1)):
                    violations.append({"mechanism": f"chain-order-{engine}-rtc{rtc}", "rule": "C03.fifo",
                                       "detail": f"links ran {len(depths)} times / out of order", "witness": {"source": src}})
                    continue
                if rtc:
                    base = max(ds[1:4])
                    if max(ds[1:]) > base + 2:
                        violations.append({"mechanism": f"chain-depth-grows-{engine}", "rule": "C03.constant-depth",
                                           "detail": f"stack depth grew from {base} to {max(ds)} over {limit} links", "witness": {"source": src}})
                    if any(r is not None for r in rets):
                        violations.append({"mechanism": f"chain-nested-result-{engine}", "rule": "C03.nested-returns-none",
                                           "detail": f"nested sends returned {set(map(repr, rets))}", "witness": {"source": src}})
                    exp_first = 0 if place in ("on", "before") else None
                    if res != exp_first:
                        violations.append({"mechanism": f"chain-first-result-{engine}", "rule": "C03.first-result",
                                           "detail": f"outermost send returned {res!r}, expected {exp_first!r}", "witness": {"source": src}})
                else:
                    if not all(b > a for a, b in zip(ds, ds[1:])):
                        violations.append({"mechanism": "chain-nonrtc-not-depth-first", "rule": "C03.non-rtc-depth-first",
                                           "detail": f"depths {ds[:10]} do not grow with rtc=False", "witness": {"source": src}})
                    if place in ("on", "before"):
                        exp = list(range(limit, 0, -1))
                        if rets != exp:
                            violations.append({"mechanism": "chain-nonrtc-own-result", "rule": "C03.non-rtc-own-result",
                                               "detail": f"nested results {rets[:6]}.. expected {exp[:6]}..", "witness": {"source": src}})
    fan_out(counters, violations, sigs, 700 if desc["tier"] == "quick" else 5000)
    cross_machine(counters, violations, sigs)
    return {"evaluations": counters["chains"], "signatures": sorted(sigs), "samples": [{"chain_source": CHAIN_SRC, "links": long_n}],
            "counters": counters, "violations": violations}


FAN_SRC = '''
class Fan_{k}(StateMachine):
    s0 = State(initial=True)
    burst = s0.to.itself({place}="spread")
    tick = s0.to.itself(on="note")
    {a}def spread(self, *args, **kwargs):
        for i in range(WIDTH):
            r = self.send("tick", i=i)
            {aw}
            if r is not None:
                RETS.append(r)
    {a}def note(self, i):
        SEEN.append(i)
        return i
'''


def fan_out(counters, violations, sigs, width):
    """One callback queues `width` events at once: every one of them is processed, in sending order."""
    import inspect

    from statemachine import State, StateMachine

    for engine in ("sync", "async"):
        for place in ("before", "on", "after"):
            seen, rets = [], []
            src = FAN_SRC.format(k=f"{engine}_{place}", place=place, a="async " if engine == "async" else "",
                                 aw="r = (await r) if inspect.isawaitable(r) else r" if engine == "async" else "pass")
            ns = {"State": State, "StateMachine": StateMachine, "SEEN": seen, "RETS": rets, "WIDTH": width, "inspect": inspect,
                  "__name__": "vmon_c03fan"}
            exec(compile(src, "<c03fan>", "exec"), ns)
            try:
                sm = ns[f"Fan_{engine}_{place}"]()
                sm.send("burst")
            except Exception as err:  # noqa: BLE001
                violations.append({"mechanism": f"fan-out-raised-{engine}", "rule": "C03.fifo", "detail": f"{type(err).__name__}: {err}"[:200],
                                   "witness": {"source": src, "width": width}})
                continue
            counters["fan_out_events"] = counters.get("fan_out_events", 0) + len(seen)
            sigs.add(F.h(("fan", engine, place)))
            if seen != list(range(width)) or rets:
                first_bad = next((i for i, (a_, b_) in enumerate(zip(seen, range(width))) if a_ != b_), len(seen))
                violations.append({"mechanism": f"fan-out-lost-or-reordered-{engine}", "rule": "C03.fifo",
                                   "detail": f"{width} events queued by one {place} callback: {len(seen)} processed, first deviation at position {first_bad}; nested results {rets[:3]}",
                                   "witness": {"source": src, "width": width}})


CROSS_SRC = '''
class Outer_{k}(StateMachine):
    a = State(initial=True)
    b = State()
    go = a.to(b, {place}="poke")
    back = b.to(a)
    {a}def poke(self, *args, **kwargs):
        r = INNER[0].send("tick", 7)
        {aw}
        LOG.append(("inner-returned", r, INNER[0].current_state.id))
        return "outer"

class Inner_{k}(StateMachine):
    x = State(initial=True)
    y = State()
    tick = x.to(y, on="mark") | y.to(x, on="mark")
    {a}def mark(self, n):
        LOG.append(("inner-ran", n))
        return "inner-%s" % n
'''


def cross_machine(counters, violations, sigs):
    """A callback of machine A sends an event to an idle machine B (another instance, another
    class, or one created inside the callback): B is not the machine in progress, so the call is
    an outermost call for B - it must be processed at once and return B's own result."""
    import inspect

    from statemachine import State, StateMachine

    k = 0
    for engine in ("sync", "async"):
        for place in ("before", "on", "after"):
            for rtc in (True, False):
                if engine == "async" and not rtc:
                    continue
                k += 1
                log, inner = [], [None]
                src = CROSS_SRC.format(k=f"{k}", place=place, a="async " if engine == "async" else "",
                                       aw="r = (await r) if inspect.isawaitable(r) else r" if engine == "async" else "pass")
                ns = {"State": State, "StateMachine": StateMachine, "LOG": log, "INNER": inner, "inspect": inspect,
                      "__name__": "vmon_c03cross"}
                exec(compile(src, "<c03cross>", "exec"), ns)
                try:
                    inner[0] = ns[f"Inner_{k}"](rtc=rtc)
                    outer = ns[f"Outer_{k}"](rtc=rtc)
                    res = outer.send("go")
                    outer_state = outer.current_state.id
                except Exception as err:  # noqa: BLE001
                    res, outer_state = f"raised {type(err).__name__}: {err}", None
                counters["cross_machine_cases"] = counters.get("cross_machine_cases", 0) + 1
                sigs.add(F.h(("cross", engine, place, rtc)))
                want = [("inner-ran", 7), ("inner-returned", "inner-7", "y")]
                if log != want or outer_state != "b":
                    violations.append({"mechanism": f"cross-machine-send-not-processed-{engine}", "rule": "C03.outermost-call-of-idle-machine",
                                       "detail": f"log={log} expected={want} outer={outer_state} res={res!r}",
                                       "witness": {"source": src, "place": place, "rtc": rtc}})


def run_shard(desc):
    if desc.get("chain"):
        return run_chain(desc)
    return F.explore(desc, make_case, owns, signature)


def replay(witness):
    if "scenario" not in witness.get("witness", {}):
        return run_chain({"tier": "quick", "seed": 0})
    return F.replay_case(witness, owns)
