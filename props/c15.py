"""C15 — every declaration style of the same machine yields the same machine."""
import copy
import json
import random
import warnings

from props import c09
from vmon import family as F
from vmon import gen, render
from vmon.model import check_log
from vmon.rec import Recorder
from vmon.run import Run, Scenario

META = {
    "level": "exploration",
    "technique": "differential runtime monitoring between renderings of one abstract machine, each also checked against the reference interpreter",
    "rule": (
        "cases = abstract machines (C01/C02 generator: guards, validators, callbacks in every attachment "
        "style) each rendered 3-5 ways by independent style decisions: a.to(b) / b.from_(a) / to.itself(), "
        "multi-target and multi-source calls, | chains left- and right-nested, event= as string / list / "
        "space-separated string / Event, explicit Event(...), event-declaring decorator, from_.any() vs "
        "explicit transitions from every non-final state, States.from_enum / States({...}) vs State "
        "attributes, inheritance from a base class. All renderings must expose identical states (id, value, "
        "initial, final), the same event set, the same allowed-event set in every state, and the same "
        "trace on 2-4 common event sequences x valuations (each checked against the one reference). "
        "distinct_nontrivial = distinct (style decision vector, machine has guards/callbacks/any/multi-event) "
        "pairs compared."
    ),
    "assumptions": [
        "order of events inside allowed_events / events is compared as a set (attachment order differs between styles by construction)",
        "multi-target / multi-source grouping only joins transitions that are adjacent in declaration order, so the per-state candidate order is the same in every rendering",
        "inheritance renderings put the base class' transitions first in declaration order; enum/dict state containers carry no inline enter/exit callbacks",
    ],
    "must_observe": ["renderings", "pairs_compared", "events_executed", "styles_seen"],
    "shard_timeout": {"quick": 900, "thorough": 3400},
}

PROFILE = {"n_states": (2, 5), "n_events": (1, 4), "extra_transitions": (1, 6), "p_multi_event": 0.3,
           "p_guard": 0.35, "p_validator": 0.08, "p_conv": 0.12, "p_inline": 0.25, "p_deco": 0.15,
           "providers": ["sm", "model", "l0"], "p_any": 0.35, "p_self": 0.3, "p_internal": 0.3}


def base_valid(spec, base_events):
    """Would the base class (all states + transitions whose events are all in base_events) be valid?"""
    ids = [s["id"] for s in spec["states"]]
    idx = {s: i for i, s in enumerate(ids)}
    ts = [t for t in spec["transitions"] if t.get("from_any") is None and all(e in base_events for e in t["events"])]
    if not ts:
        return False
    edges = [(idx[t["src"]], idx[t["dst"]], t["internal"]) for t in ts]
    init = {idx[s["id"]] for s in spec["states"] if s["initial"]}
    fin = {idx[s["id"]] for s in spec["states"] if s["final"]}
    return c09.oracle(len(ids), edges, init, fin, False)[0] == "ok"


def base_valid_ts(spec, ts):
    ids = [s["id"] for s in spec["states"]]
    idx = {s: i for i, s in enumerate(ids)}
    if not ts:
        return False
    edges = [(idx[t["src"]], idx[t["dst"]], t["internal"]) for t in ts]
    init = {idx[s["id"]] for s in spec["states"] if s["initial"]}
    fin = {idx[s["id"]] for s in spec["states"] if s["final"]}
    return c09.oracle(len(ids), edges, init, fin, False)[0] == "ok"


def plan_style(rng, spec, force=None):
    st = {}
    explicit = [t for t in spec["transitions"] if t.get("from_any") is None]
    has_func = any(cb["kind"] == "func" for cb in spec["cbs"].values())
    state_inline = any(refs[g] for refs in spec["state_refs"].values() for g in refs)
    # states container
    r = rng.random()
    if r < 0.2:
        st["states"] = "dict"
    elif r < 0.4 and not state_inline and not any(s.get("name") for s in spec["states"]):
        st["states"] = "enum"
    else:
        st["states"] = "attrs"
    st["tstyle"] = {}
    for t in explicit:
        r = rng.random()
        if t["src"] == t["dst"] and r < 0.5:
            st["tstyle"][str(t["i"])] = "itself"
        elif r < 0.4:
            st["tstyle"][str(t["i"])] = "from"
        else:
            st["tstyle"][str(t["i"])] = "to"
    st["group"] = rng.random() < 0.6
    st["any"] = rng.choice(["any", "explicit"]) if spec.get("any_decls") else "any"
    deco_targets = {}
    for cid, cb in spec["cbs"].items():
        if cb["kind"] == "deco" and cb["deco"]["target"] == "event":
            deco_targets.setdefault(cb["deco"]["event"], []).append(cid)
    st["events"] = {}
    for e in spec["events"]:
        has_any = any(d["event"] == e for d in spec.get("any_decls", []))
        opts = ["attr", "attr", "attr_right", "explicit_event"]
        if e not in deco_targets and not (has_any and st["any"] == "any"):
            opts += ["kw_str", "kw_list", "kw_event", "kw_obj", "kw_obj"]
        if (len(deco_targets.get(e, [])) == 1 and spec["cbs"][deco_targets[e][0]]["deco"]["group"] == "on"
                and "deco_event_cb" not in st and not spec["cbs"][deco_targets[e][0]]["async"]):
            opts += ["decorator", "decorator"]
        choice = rng.choice(opts)
        if choice == "decorator":
            st["deco_event_cb"] = deco_targets[e][0]
        st["events"][e] = choice
    # kw events need at least one explicit transition each (otherwise nothing declares them)
    for e, s_ in list(st["events"].items()):
        if s_.startswith("kw_") and not any(e in t["events"] for t in explicit):
            st["events"][e] = "attr"
    has_event_deco = any(cb["kind"] == "deco" and cb["deco"]["target"] == "event" for cb in spec["cbs"].values())
    if (st["states"] == "attrs" and not has_func and not has_event_deco and rng.random() < 0.45 and len(explicit) >= 2
            and not any(v == "decorator" for v in st["events"].values())):
        # base class = the first k transitions (all states); the subclass adds the rest: new events and
        # further transitions for inherited events
        for _try in range(4):
            k = rng.randint(1, len(explicit) - 1)
            base_events = [e for e in spec["events"] if any(e in t["events"] for t in explicit[:k])]
            any_on_base_only = any(d["event"] in base_events and not any(d["event"] in t["events"] for t in explicit[k:])
                                   for d in spec.get("any_decls", []))
            if base_valid_ts(spec, explicit[:k]):
                st["base_split"] = k
                for e in spec["events"]:
                    if st["events"][e] in ("kw_obj",):
                        st["events"][e] = "kw_str"
                    # a keyword-declared event that spans base and subclass is fine; nothing to adjust
                break
    # events declared partly by keyword and partly through the attribute
    for e in spec["events"]:
        holders = [t for t in explicit if e in t["events"]]
        if st["events"][e] in ("attr", "attr_right") and len(holders) >= 2 and e not in deco_targets and rng.random() < 0.25:
            k = st.get("base_split")
            if k and holders[0] in explicit[:k] and not any(h in explicit[:k] for h in holders[1:]):
                continue   # the attribute line would live in the subclass only: covered by the inheritance case
            if k and not (all(h in explicit[:k] for h in holders) or all(h in explicit[k:] for h in holders)):
                continue
            st["events"][e] = "split"
    return st


def reorder_for_inheritance(rng, spec):
    """Put the transitions of a prefix of events first, so that an inheritance rendering is possible."""
    if len(spec["events"]) < 2 or spec.get("any_decls") and rng.random() < 0.5:
        return
    k = rng.randint(1, len(spec["events"]) - 1)
    base = set(spec["events"][:k])
    explicit = [t for t in spec["transitions"] if t.get("from_any") is None]
    rest = [t for t in spec["transitions"] if t.get("from_any") is not None]
    a = [t for t in explicit if all(e in base for e in t["events"])]
    b = [t for t in explicit if t not in a]
    new = a + b + rest
    remap = {}
    for i, t in enumerate(new):
        remap[t["i"]] = i
        t["i"] = i
    spec["transitions"] = new
    for d in spec.get("any_decls", []):
        d["proto"] = remap[d["proto"]]


def structure(sm):
    out = {"states": [(s.id, repr(s.value), bool(s.initial), bool(s.final)) for s in sm.states]}
    out["states"].sort()
    out["events"] = sorted(str(e) for e in sm.events)
    allowed = {}
    keep = sm.current_state_value
    for s in sm.states:
        try:
            sm.current_state_value = s.value
            allowed[s.id] = sorted(str(e) for e in sm.allowed_events)
        except Exception as err:  # noqa: BLE001
            allowed[s.id] = "ERR:" + type(err).__name__
    sm.current_state_value = keep
    out["allowed"] = allowed
    return out


def make_case(rng, i):
    prof = dict(PROFILE)
    prof["async_mode"] = rng.choice(["none", "none", "none", "half"])
    spec = gen.gen_spec(rng, prof)
    if rng.random() < 0.5:
        for k, s in enumerate(spec["states"]):
            s["value"] = {"expr": str(k + 1)}
    if rng.random() < 0.5:
        reorder_for_inheritance(rng, spec)
    variants = [None]
    for _ in range(rng.randint(2, 4)):
        variants.append(plan_style(rng, spec))
    histories = []
    for _ in range(rng.randint(2, 3)):
        steps = [{"op": "construct", "val": gen.gen_valuation(rng, spec)}]
        if spec["any_async"]:
            steps.append({"op": "activate"})
        steps += gen.gen_history(rng, spec, rng.randint(4, 12), p_unknown=0.05, p_pick=0.4)
        histories.append(steps)
    return {"spec": spec, "variants": variants, "histories": histories}


def value_of_factory(spec):
    table = {s["id"]: (eval(s["value"]["expr"]) if s.get("value") else s["id"]) for s in spec["states"]}  # noqa: S307
    return lambda sid: table.get(sid)


def run_case(case, counters, violations, sigs, samples):
    spec = case["spec"]
    vo = value_of_factory(spec)
    results = []
    for vi, style in enumerate(case["variants"]):
        sp = copy.deepcopy(spec)
        sp["uid"] = gen.next_uid()
        if style:
            sp["style"] = style
        per_hist = []
        source = None
        struct = None
        for steps in case["histories"]:
            sc = Scenario(sp, steps, "sync")
            run = Run(sc)
            # structure probe on a fresh instance of this rendering (first history only)
            log = run.execute()
            source = run.source
            rej, ck = check_log(sp, log, value_of=vo, prepare=lambda c: setattr(c, "check_allowed_order", False))
            counters["runs"] += 1
            for k_, v in ck.stats.items():
                counters[k_] = counters.get(k_, 0) + v
            per_hist.append((rej, log, ck))
        # structure
        try:
            rec = Recorder()
            with warnings.catch_warnings():
                warnings.simplefilter("ignore")
                mod, src2 = render.load(sp, rec)
                objs = render.provider_objects(sp, mod)
                cls = getattr(mod, f"M_{sp['uid']}")
                lst = [objs[p] for p in sp["providers"] if p not in ("sm", "model")]
                sm = cls(objs["model"], listeners=lst, allow_event_without_transition=True)
                if sp["any_async"]:
                    sm.activate_initial_state()
                struct = structure(sm)
            render.unload(sp)
        except Exception as err:  # noqa: BLE001
            struct = {"error": f"{type(err).__name__}: {err}"[:300]}
        counters["renderings"] += 1
        results.append({"style": style, "source": source, "struct": struct, "hist": per_hist})
    base = results[0]

    def style_key(style):
        if not style:
            return "canonical"
        return json.dumps({"states": style.get("states"), "t": sorted(set(style.get("tstyle", {}).values())),
                           "group": style.get("group"), "any": style.get("any"),
                           "ev": sorted(set(style.get("events", {}).values())), "inherit": bool(style.get("base_split"))}, sort_keys=True)

    def conforms(r):
        return all(rej is None for rej, _l, _c in r["hist"]) and not any(getattr(c, "softs", []) for _r, _l, c in r["hist"]) \
            and "error" not in r["struct"]

    ok = [conforms(r) for r in results]
    if not any(ok):
        # every rendering deviates from the reference in the same run: not a style difference
        counters["foreign_aborts"] += 1
        return
    # reference rendering for comparison: the first conforming one
    base = results[ok.index(True)]
    feats = (bool(spec["guards"]), bool(spec["cbs"]), bool(spec.get("any_decls")), any(len(t["events"]) > 1 for t in spec["transitions"]))
    for r in results:
        if r is base:
            continue
        counters["pairs_compared"] += 1
        sk = style_key(r["style"])
        counters.setdefault("styles_seen", [])
        if sk not in counters["styles_seen"] and len(counters["styles_seen"]) < 300:
            counters["styles_seen"].append(sk)
        wit = {"conforming_source": base["source"], "conforming_style": base["style"], "deviating_source": r["source"],
               "style": r["style"], "spec": spec, "histories": case["histories"]}

        def mech_of(what):
            s_ = r["style"] or {}
            b_ = base["style"] or {}
            tags = []
            if not r["style"]:
                tags.append("canonical")
                if spec.get("any_decls") and b_.get("any") == "explicit":
                    tags.append("from_any")
            if s_.get("base_split"):
                tags.append("inheritance")
            if s_.get("states", "attrs") != "attrs":
                tags.append("states-" + s_["states"])
            if s_.get("any") == "explicit":
                tags.append("any-explicit")
            elif spec.get("any_decls") and r["style"]:
                tags.append("from_any")
            tags += sorted({v for v in s_.get("events", {}).values() if v not in ("attr",)})
            tags += sorted({"t-" + v for v in s_.get("tstyle", {}).values() if v != "to"})
            if s_.get("group"):
                tags.append("grouped")
            return what + ":" + "+".join(tags[:4])

        if r["struct"] != base["struct"]:
            keys = [k_ for k_ in ("error", "states", "events", "allowed") if r["struct"].get(k_) != base["struct"].get(k_)]
            violations.append({"mechanism": mech_of("structure-differs(" + ",".join(keys) + ")"), "rule": "C15.same-structure",
                               "detail": f"conforming={ {k_: base['struct'].get(k_) for k_ in keys} } deviating={ {k_: r['struct'].get(k_) for k_ in keys} }"[:800],
                               "witness": wit})
            continue
        bad = next(((rej, log) for rej, log, _c in r["hist"] if rej is not None), None)
        if bad:
            rej, log = bad
            violations.append({"mechanism": mech_of("behaviour-differs(" + rej.rule + ")"), "rule": "C15.same-behaviour",
                               "detail": rej.detail[:600], "witness": dict(wit, trace=F.trace_excerpt(log, rej.n))})
            continue
        softs = [s_ for _r, _l, c in r["hist"] for s_ in getattr(c, "softs", [])]
        if softs:
            violations.append({"mechanism": mech_of("behaviour-differs(" + softs[0][0] + ")"), "rule": "C15.same-behaviour",
                               "detail": softs[0][1][:600], "witness": wit})
            continue
        sigs.add(F.h((sk, feats)))
        if len(samples) < 2 and (r["style"] or {}).get("base_split"):
            samples.append({"canonical_source": base["source"][:1800], "styled_source": r["source"][:1800], "style": r["style"]})


def plan(tier, seed):
    return F.std_plan(tier, seed, 960, 12000)


def run_shard(desc):
    rng = random.Random(desc["seed"])
    counters = {"runs": 0, "renderings": 0, "pairs_compared": 0, "foreign_aborts": 0}
    violations, sigs, samples = [], set(), []
    for i in range(desc["count"]):
        case = make_case(rng, i)
        try:
            run_case(case, counters, violations, sigs, samples)
        except Exception:  # noqa: BLE001
            import traceback

            counters["harness_errors"] = counters.get("harness_errors", 0) + 1
            if counters["harness_errors"] <= 2:
                violations.append({"mechanism": "harness-error", "rule": "harness", "detail": traceback.format_exc()[-1500:],
                                   "witness": {"spec": case["spec"], "variants": case["variants"]}})
    byk = {}
    for v in violations:
        byk.setdefault(v["mechanism"], []).append(v)
    violations = [v for vs in byk.values() for v in sorted(vs, key=lambda x: len(json.dumps(x, default=str)))[:2]]
    out = {"evaluations": counters["runs"], "signatures": sorted(sigs), "samples": samples, "counters": counters, "violations": violations}
    if counters["foreign_aborts"] > 0.25 * max(1, counters["renderings"]):
        out["inconclusive"] = ["canonical rendering rejected too often"]
    return out


def replay(witness):
    w = witness["witness"]
    counters = {"runs": 0, "renderings": 0, "pairs_compared": 0, "foreign_aborts": 0}
    violations = []
    if "spec" in w and "style" in w:
        case = {"spec": w["spec"], "variants": [None, w["style"]], "histories": w.get("histories", [])}
        run_case(case, counters, violations, set(), [])
    return {"evaluations": 1, "violations": violations, "counters": counters}
