"""Worker entry: python -m vmon.worker <PROP> <json shard descriptor> <outfile>."""

import faulthandler
import importlib
import json
import os
import sys
import warnings


def main():
    prop_id, desc_json, out = sys.argv[1], sys.argv[2], sys.argv[3]
    repo = os.environ.get("VERIF_REPO", "/repo")
    if sys.path[0] != repo:
        sys.path.insert(0, repo)
    faulthandler.enable()
    warnings.simplefilter("default")
    desc = json.loads(desc_json)
    mod = importlib.import_module("props." + prop_id.lower())
    import statemachine

    src = os.path.dirname(os.path.abspath(statemachine.__file__))
    if not src.startswith(os.path.abspath(repo)):
        raise SystemExit(f"statemachine imported from {src}, expected under {repo}")
    if "replay" in desc:
        res = mod.replay(desc["replay"])
    else:
        res = mod.run_shard(desc)
    tmp = out + ".tmp"
    with open(tmp, "w") as fh:
        json.dump(res, fh, default=str)
    os.replace(tmp, out)


if __name__ == "__main__":
    main()
