"""Controlled asyncio scheduler: every suspension point of generated coroutine callbacks and sender
tasks is ``await gate.point()``, which parks the task on a fresh future. A controller lets the loop
settle, then resumes exactly one parked task chosen by the schedule. DFS over the choice tree is
exhaustive (re-execution per schedule)."""

from __future__ import annotations

import asyncio


class Stuck(Exception):
    pass


class Gate:
    def __init__(self, prefix=()):
        self.prefix = list(prefix)
        self.trace = []            # (chosen, enabled tuple)
        self.parked = {}           # task name -> future
        self.total = 0
        self.done = 0
        self.labels = {}           # task -> stable label (creation order within this run)

    def _label(self, task):
        name = task.get_name() if task is not None else "?"
        if not name.startswith("Task-"):
            return name
        if task not in self.labels:
            self.labels[task] = f"cb{len(self.labels)}"
        return self.labels[task]

    async def point(self, who=None):
        task = asyncio.current_task()
        name = self._label(task)
        fut = asyncio.get_running_loop().create_future()
        self.parked[name] = fut
        await fut

    def _decide(self, enabled):
        idx = len(self.trace)
        if idx < len(self.prefix) and self.prefix[idx] in enabled:
            choice = self.prefix[idx]
        else:
            choice = enabled[0]
        self.trace.append((choice, tuple(enabled)))
        return choice

    async def controller(self, tasks, max_spins=200):
        """Runs until all tasks are done; raises Stuck if nothing is parked and tasks are pending."""
        while True:
            # let the loop settle: every live task is parked at a gate or finished
            spins = 0
            while True:
                live = [t for t in tasks if not t.done()]
                if not live:
                    return
                if len(self.parked) == len(live):
                    break
                spins += 1
                if spins > max_spins:
                    if not self.parked:
                        raise Stuck(f"{len(live)} live tasks, none parked")
                    break
                await asyncio.sleep(0)
            enabled = sorted(self.parked)
            choice = self._decide(enabled)
            fut = self.parked.pop(choice)
            fut.set_result(None)
            await asyncio.sleep(0)


def children(trace, prefix_len):
    out = []
    choices = [c for c, _e in trace]
    for i in range(prefix_len, len(trace)):
        choice, enabled = trace[i]
        for alt in enabled:
            if alt != choice:
                out.append(choices[:i] + [alt])
    return out
