"""pytest plugin (loaded with `-p vmon.i2plugin` from /verif, no repository edit): wraps
SignatureAdapter.bind_expected with an icontract postcondition that compares every binding made
while the repository's own test-suite runs with the C07 reference binder (only where the two
readings agree). The condition records and returns True; the report is written at session end."""

import json
import os

from vmon import binder as B

STATS = {"evaluations": 0, "decided": 0, "undecided": 0, "may_raise": 0, "violations": []}


def _params(sig):
    from inspect import Parameter

    kinds = {Parameter.POSITIONAL_ONLY: B.PO, Parameter.POSITIONAL_OR_KEYWORD: B.POK, Parameter.VAR_POSITIONAL: B.VARPOS,
             Parameter.KEYWORD_ONLY: B.KWO, Parameter.VAR_KEYWORD: B.VARKW}
    return [{"name": p.name, "kind": kinds[p.kind], "default": p.default is not Parameter.empty} for p in sig.parameters.values()]


def agrees(self, _ARGS, _KWARGS, result, OLD):
    STATS["evaluations"] += 1
    try:
        params = _params(self)
        args = list(_ARGS[1:]) if _ARGS and _ARGS[0] is self else list(_ARGS)
        kwargs = OLD.kw
        v = B.verdict(params, args, kwargs)
        if v[0] != "bind":
            STATS["undecided" if v[0] == "undecided" else "may_raise"] += 1
            return True
        STATS["decided"] += 1
        got = dict(result.arguments)
        exp = {k: val for k, val in v[1]["named"].items() if val != B.DEFAULT}
        for p in params:
            if p["kind"] == B.VARPOS and v[1].get("varpos"):
                exp[p["name"]] = tuple(v[1]["varpos"])
            if p["kind"] == B.VARKW and v[1].get("varkw"):
                exp[p["name"]] = v[1]["varkw"]
        ok = set(exp) == set(got) and all(
            (got[k] is exp[k]) or (got[k] == exp[k]) for k in exp
        )
        if not ok and len(STATS["violations"]) < 20:
            STATS["violations"].append({
                "signature": str(self), "args": [repr(a)[:40] for a in args], "kwargs": sorted(kwargs),
                "expected_keys": sorted(exp), "observed_keys": sorted(got),
                "differs": [k for k in set(exp) | set(got) if k not in exp or k not in got or not ((got[k] is exp[k]) or got[k] == exp[k])],
            })
    except Exception as err:  # noqa: BLE001  the monitor must never break the suite
        STATS.setdefault("monitor_errors", []).append(f"{type(err).__name__}: {err}"[:200])
    return True


def pytest_configure(config):
    import icontract

    from statemachine.signature import SignatureAdapter

    class I2Broken(Exception):
        pass

    def kw_snapshot(_KWARGS):
        return dict(_KWARGS)

    wrapped = icontract.snapshot(kw_snapshot, name="kw")(
        icontract.ensure(agrees, error=I2Broken)(SignatureAdapter.bind_expected)
    )
    SignatureAdapter.bind_expected = wrapped


def pytest_sessionfinish(session, exitstatus):
    out = os.environ.get("VMON_I2_OUT")
    if out:
        STATS["pytest_exitstatus"] = int(exitstatus)
        with open(out, "w") as fh:
            json.dump(STATS, fh)
