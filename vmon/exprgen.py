"""Expression-tree generator for guard expressions (C08).

A tree is printed twice: in a random *library spelling* (`!`/`not`, `^`/`and`, `v`/`or`, optional
blanks, redundant parentheses) and in canonical Python; the oracle evaluates the Python spelling
with Python's own evaluator, so it never depends on the library's operator rewriting.
"""

from __future__ import annotations

import ast
import re

CMP_OPS = ["==", "!=", "<", "<=", ">", ">="]

NAME_POOL = [
    "valid", "nand", "or_else", "v2", "not_ok", "andy", "is_ok", "x", "y", "count", "vv",
    "a_v_b", "flag", "level", "nota", "vor", "p", "q", "r", "xor_v", "both_and",
]


class T:
    __slots__ = ("kind", "kids", "val", "ops")

    def __init__(self, kind, kids=(), val=None, ops=None):
        self.kind = kind  # name | const | not | and | or | cmp | paren
        self.kids = list(kids)
        self.val = val
        self.ops = ops

    def walk(self):
        yield self
        for k in self.kids:
            yield from k.walk()


PREC = {"or": 1, "and": 2, "not": 3, "cmp": 4, "name": 5, "const": 5, "paren": 5}


def gen_const(rng, for_cmp=False):
    r = rng.random()
    if for_cmp:
        if r < 0.5:
            return T("const", val=rng.choice([0, 1, 2, 3, 10]))
        if r < 0.65:
            return T("const", val=rng.choice([0.0, 0.5, 1.5, 2.0]))
        if r < 0.9:
            return T("const", val=rng.choice(["a", "b", "", "ab", "go now"]))
        return T("const", val=rng.choice([True, False, None]))
    return T("const", val=rng.choice([True, False, None, 0, 1, "", "a", 0.0, 2]))


def gen_tree(rng, names, depth, cmp_names=None):
    """names: names usable in boolean context; cmp_names: names usable as comparison operands."""
    cmp_names = cmp_names or names
    r = rng.random()
    if depth <= 0 or r < 0.18:
        if rng.random() < 0.9:
            return T("name", val=rng.choice(names))
        return gen_const(rng)
    if r < 0.33:
        kid = gen_tree(rng, names, depth - 1, cmp_names)
        return T("not", [kid])
    if r < 0.55:
        n = rng.choice([2, 2, 2, 3, 4])
        return T("and", [gen_tree(rng, names, depth - 1, cmp_names) for _ in range(n)])
    if r < 0.77:
        n = rng.choice([2, 2, 2, 3, 4])
        return T("or", [gen_tree(rng, names, depth - 1, cmp_names) for _ in range(n)])
    if r < 0.93:
        nops = rng.choice([1, 1, 1, 1, 2, 3])
        operands = []
        for _ in range(nops + 1):
            q = rng.random()
            if q < 0.6:
                operands.append(T("name", val=rng.choice(cmp_names)))
            elif q < 0.92:
                operands.append(gen_const(rng, for_cmp=True))
            else:
                operands.append(T("paren", [gen_tree(rng, names, min(depth - 1, 1), cmp_names)]))
        return T("cmp", operands, ops=[rng.choice(CMP_OPS) for _ in range(nops)])
    return T("paren", [gen_tree(rng, names, depth - 1, cmp_names)])


def _const_repr(v, rng=None):
    if isinstance(v, str):
        if rng is not None and rng.random() < 0.5:
            return '"' + v + '"'
        return "'" + v + "'"
    return repr(v)


def _need_paren(parent, child, position):
    pk, ck = parent.kind, child.kind
    if pk == "cmp":
        return PREC[ck] < 5
    if pk == "not":
        return PREC[ck] < 3
    if pk in ("and", "or"):
        # same-kind child needs parentheses to keep the nesting (the AST would flatten it)
        return PREC[ck] < PREC[pk] or ck == pk
    return False


def to_python(t):
    k = t.kind
    if k == "name":
        return t.val
    if k == "const":
        return _const_repr(t.val)
    if k == "paren":
        return "(" + to_python(t.kids[0]) + ")"

    def sub(c, pos):
        s = to_python(c)
        return "(" + s + ")" if _need_paren(t, c, pos) else s

    if k == "not":
        return "not " + sub(t.kids[0], 0)
    if k in ("and", "or"):
        return (" %s " % k).join(sub(c, i) for i, c in enumerate(t.kids))
    if k == "cmp":
        out = sub(t.kids[0], 0)
        for op, c in zip(t.ops, t.kids[1:]):
            out += " %s %s" % (op, sub(c, 1))
        return out
    raise ValueError(k)


def to_lib(t, rng, style):
    """style: dict(p_sym=prob of symbolic operators, p_tight=prob of dropping optional blanks)."""
    p_sym, p_tight = style["p_sym"], style["p_tight"]
    k = t.kind
    if k == "name":
        return t.val
    if k == "const":
        return _const_repr(t.val, rng)
    if k == "paren":
        inner = to_lib(t.kids[0], rng, style)
        if rng.random() < 0.2:
            inner = " " + inner + " "
        return "(" + inner + ")"

    def sub(c, pos):
        s = to_lib(c, rng, style)
        return "(" + s + ")" if _need_paren(t, c, pos) else s

    if k == "not":
        inner = sub(t.kids[0], 0)
        if rng.random() < p_sym:
            return "!" + ("" if rng.random() < max(p_tight, 0.5) else " ") + inner
        return "not " + inner
    if k == "and":
        parts = [sub(c, i) for i, c in enumerate(t.kids)]
        out = parts[0]
        for p in parts[1:]:
            if rng.random() < p_sym:
                l = "" if rng.random() < p_tight else " "
                r = "" if rng.random() < p_tight else " "
                out += l + "^" + r + p
            else:
                out += " and " + p
        return out
    if k == "or":
        parts = [sub(c, i) for i, c in enumerate(t.kids)]
        out = parts[0]
        for p in parts[1:]:
            if rng.random() < p_sym:
                tight_ok = out.endswith(")") and p.startswith("(")
                if tight_ok and rng.random() < p_tight:
                    out += "v" + p
                else:
                    out += " v " + p
            else:
                out += " or " + p
        return out
    if k == "cmp":
        out = sub(t.kids[0], 0)
        for op, c in zip(t.ops, t.kids[1:]):
            l = "" if rng.random() < p_tight else " "
            r = "" if rng.random() < p_tight else " "
            out += l + op + r + sub(c, 1)
        return out
    raise ValueError(k)


def skeleton(t):
    k = t.kind
    if k == "name":
        return "n"
    if k == "const":
        return "c:" + type(t.val).__name__
    if k == "paren":
        return "(" + skeleton(t.kids[0]) + ")"
    if k == "cmp":
        return "cmp[" + ",".join(t.ops) + "](" + ",".join(skeleton(c) for c in t.kids) + ")"
    return k + "(" + ",".join(skeleton(c) for c in t.kids) + ")"


def n_operators(t):
    return sum(1 for n in t.walk() if n.kind in ("not", "and", "or")) + sum(
        len(n.ops) for n in t.walk() if n.kind == "cmp"
    )


def has_chain(t):
    return any(n.kind == "cmp" and len(n.ops) > 1 for n in t.walk())


def names_in(t):
    return [n.val for n in t.walk() if n.kind == "name"]


def string_consts(t):
    return [n.val for n in t.walk() if n.kind == "const" and isinstance(n.val, str)]


_norm_pat = re.compile(r"\!(?!=)|\^|\bv\b")


def independent_parse_ok(expr: str) -> bool:
    """Does the string parse as one Python expression after spelling normalisation?
    Only used to confirm that a *mutated* string (without string literals) is really invalid."""
    norm = _norm_pat.sub(lambda m: {"!": " not ", "^": " and ", "v": " or "}[m.group(0)], expr)
    try:
        ast.parse(norm.strip(), mode="eval")
        return True
    except SyntaxError:
        return False
    except Exception:
        return False
