"""Renders an abstract machine spec to Python source and loads it as a registered module."""

from __future__ import annotations

import zlib
import sys
import types


SIGDECO_SRC = [
    "import inspect as _inspect",
    "def _sigdeco(f):",
    "    # a signature-preserving decorator: the wrapper carries __signature__ (and shares its code object)",
    "    if _inspect.iscoroutinefunction(f):",
    "        async def w(*a, **k):",
    "            return await f(*a, **k)",
    "    else:",
    "        def w(*a, **k):",
    "            return f(*a, **k)",
    "    w.__name__, w.__qualname__, w.__doc__ = f.__name__, f.__qualname__, f.__doc__",
    "    w.__signature__ = _inspect.signature(f)",
    "    return w",
    "",
]


AWRAP_SRC = [
    "import functools as _functools",
    "def _awrap(f):",
    "    # a coroutine-function wrapper (functools.wraps, so __wrapped__ is set) around a PLAIN function",
    "    # that returns an awaitable: the callback is asynchronous although inspect.unwrap() is not",
    "    @_functools.wraps(f)",
    "    async def w(*a, **k):",
    "        return await f(*a, **k)",
    "    return w",
    "async def _aret(v):",
    "    return v",
    "",
]


def _cb_def(cid, cb, indent="    ", self_arg=True):
    name = cb["name"]
    deco = [f"{indent}@_sigdeco"] if cb.get("sigdeco") else []
    if cb["async"] and cb.get("afuture"):
        # a plain function that STARTS the work and returns a Future-like awaitable (not a coroutine)
        return [f"{indent}def {name}(self, *args, **kwargs):",
                f"{indent}    import asyncio as _a",
                f"{indent}    return _a.ensure_future(REC.arun({cid!r}, self, args, kwargs))"]
    if cb["async"] and cb.get("awrap"):
        return [f"{indent}@_awrap", f"{indent}def {name}(self, *args, **kwargs):",
                f"{indent}    return REC.arun({cid!r}, self, args, kwargs)"]
    if cb["async"]:
        return deco + [
            f"{indent}async def {name}(self, *args, **kwargs):",
            f"{indent}    return await REC.arun({cid!r}, self, args, kwargs)",
        ]
    return deco + [
        f"{indent}def {name}(self, *args, **kwargs):",
        f"{indent}    return REC.run({cid!r}, self, args, kwargs)",
    ]


def _ref_expr(spec, ref):
    if ref["by"] == "name":
        return repr(ref["name"])
    cb = spec["cbs"][ref["cb"]]
    if cb["kind"] == "lambda":
        return f"(lambda *args, **kwargs: REC.run({ref['cb']!r}, None, args, kwargs))"
    if cb["kind"] == "boundm":
        return f"HB_{ref['cb']}.record"
    return cb["name"]


def _list_expr(items):
    if len(items) == 1:
        return items[0]
    return "[" + ", ".join(items) + "]"


def value_expr(v):
    """State value codes (C10): None -> default (id)."""
    if v is None:
        return None
    return v["expr"]


def _guard_def(nm, g, prov, indent="    "):
    gid = f"{nm}@{prov}"
    if g["kind"] == "prop":
        return [f"{indent}@property", f"{indent}def {nm}(self):", f"{indent}    return REC.guard({gid!r}, {nm!r})"]
    if g["kind"] == "attr":
        return [f"{indent}{nm} = True"]
    if g.get("async") and g.get("awrap"):
        return [f"{indent}@_awrap", f"{indent}def {nm}(self, *args, **kwargs):", f"{indent}    return REC.aguard({gid!r}, {nm!r}, kwargs)"]
    if g.get("async"):
        return [f"{indent}async def {nm}(self, *args, **kwargs):", f"{indent}    return await REC.aguard({gid!r}, {nm!r}, kwargs)"]
    return [f"{indent}def {nm}(self, *args, **kwargs):", f"{indent}    return REC.guard({gid!r}, {nm!r}, kwargs)"]


def _validator_def(nm, v, prov, indent="    "):
    gid = f"{nm}@{prov}"
    if v.get("async") and v.get("awrap"):
        return [f"{indent}@_awrap", f"{indent}def {nm}(self, *args, **kwargs):", f"{indent}    return _aret(REC.validator({gid!r}, {nm!r}, kwargs))"]
    if v.get("async"):
        return [f"{indent}async def {nm}(self, *args, **kwargs):", f"{indent}    return REC.validator({gid!r}, {nm!r}, kwargs)"]
    return [f"{indent}def {nm}(self, *args, **kwargs):", f"{indent}    return REC.validator({gid!r}, {nm!r}, kwargs)"]


def _guard_by_obj(g):
    return bool(g.get("by_obj")) and g["providers"] == ["sm"] and g["kind"] == "method" and not g.get("awrap")


def transition_kwargs(spec, t):
    kw = []
    gref = lambda g: g["name"] if _guard_by_obj(spec["guards"][g["name"]]) and not spec.get("style") else repr(g["name"])  # noqa: E731
    conds = [gref(g) for g in t["guards"] if g["kind"] == "cond"]
    unl = [gref(g) for g in t["guards"] if g["kind"] == "unless"]
    joinable = t.get("join_guards") and len(t["guards"]) >= 2 and len({g["name"] for g in t["guards"]}) == len(t["guards"]) and all(
        len(spec["guards"][g["name"]]["providers"]) == 1 and not spec["guards"][g["name"]].get("async")
        and spec["guards"][g["name"]]["providers"][0] in spec["providers"] and not spec["guards"][g["name"]].get("by_obj") for g in t["guards"])
    if joinable:
        sym = t["i"] % 2 == 1
        a_, o_, n_ = (" ^ ", " v ", "!") if sym else (" and ", " or ", "not ")
        names_c = [g["name"] for g in t["guards"] if g["kind"] == "cond"]
        names_u = [g["name"] for g in t["guards"] if g["kind"] == "unless"]
        if names_c:
            expr = a_.join(names_c + [n_ + u for u in names_u])
            kw.append(f"cond={expr!r}")
        else:
            kw.append(f"unless={o_.join(names_u)!r}")
        conds, unl = [], []
    if conds:
        kw.append(f"cond={_list_expr(conds)}")
    if unl:
        kw.append(f"unless={_list_expr(unl)}")
    if t["validators"]:
        kw.append(f"validators={_list_expr([repr(v) for v in t['validators']])}")
    for g in ("before", "on", "after"):
        items = [_ref_expr(spec, r) for r in t["refs"][g]]
        if items:
            kw.append(f"{g}={_list_expr(items)}")
    if t["internal"]:
        kw.append("internal=True")
    return kw


def state_kwargs(spec, st):
    kw = []
    if st.get("name"):
        kw.append(repr(st["name"]))
    if st.get("value") is not None:
        kw.append(f"value={st['value']['expr']}")
    if st["initial"]:
        kw.append("initial=True")
    if st["final"]:
        kw.append("final=True")
    refs = spec["state_refs"].get(st["id"], {})
    for g in ("enter", "exit"):
        items = [_ref_expr(spec, r) for r in refs.get(g, [])]
        if items:
            kw.append(f"{g}={_list_expr(items)}")
    return kw


def render(spec, cls_suffix=""):
    if spec.get("style"):
        from . import styles

        return styles.render_styled(spec, cls_suffix)
    return render_canonical(spec, cls_suffix)


def render_providers(spec, uid):
    """Source lines of the model and listener classes."""
    full = render_canonical(dict(spec, style=None), "", _providers_only=True, _uid=uid)
    return full


def render_canonical(spec, cls_suffix="", _providers_only=False, _uid=None):
    uid = _uid or f"{spec['uid']}{cls_suffix}"
    L = list(spec.get("prelude", []))
    if any(cb.get("sigdeco") for cb in spec["cbs"].values()):
        L += SIGDECO_SRC
    if any(x.get("awrap") for grp in (spec["cbs"], spec["guards"], spec["validators"]) for x in grp.values()):
        L += AWRAP_SRC
    if any(cb["kind"] == "boundm" for cb in spec["cbs"].values()):
        # helper objects of ONE class whose bound methods are passed as callbacks
        L += ["class Helper_:", "    def __init__(self, cid):", "        self.cid = cid",
              "    def record(self, *args, **kwargs):", "        return REC.run(self.cid, None, args, kwargs)", ""]
        L += [f"HB_{cid} = Helper_({cid!r})" for cid, cb in spec["cbs"].items() if cb["kind"] == "boundm"] + [""]
    if not spec.get("style"):
        for nm, g in spec["guards"].items():
            if _guard_by_obj(g) and g["by_obj"] == "module":
                # a guard that is a plain module-level function, passed as an object
                L += [f"def {nm}(*args, **kwargs):", f"    return REC.guard({nm + '@sm'!r}, {nm!r}, kwargs)", ""]
    listeners = [p for p in spec["providers"] + spec.get("late", []) if p not in ("sm", "model")]
    # listener + model classes
    for prov in listeners + ["model"]:
        cname = f"Mod_{uid}" if prov == "model" else f"{prov.upper()}_{uid}"
        if prov == "model" and spec.get("mixin") == "first":
            # the mixin listed FIRST; the other base's __init__ receives the stored columns (a row loaded
            # from storage), so the machine must be built after that __init__ has run
            fld = spec.get("state_field", "state")
            L += [f"class Rec_{uid}:", "    def __init__(self, stored=None):", f"        self.{fld} = stored", ""]
            L.append(f"class {cname}(MachineMixin, Rec_{uid}):")
            L.append(f"    state_machine_name = 'vmon_dyn_{uid}.M_{uid}'")
            L.append("    bind_events_as_methods = True")
        elif prov == "model" and spec.get("mixin"):
            L.append(f"class {cname}(MachineMixin):")
            L.append(f"    state_machine_name = 'vmon_dyn_{uid}.M_{uid}'")
            L.append("    bind_events_as_methods = True")
        elif prov == "model" and spec.get("model_shape") == "libmodel":
            L.append(f"class {cname}(LibModel):")       # the user's domain model extends the library's Model class
        else:
            L.append(f"class {cname}:")
        body = []
        if prov == "model":
            fld = spec.get("state_field", "state")
            shape = spec.get("model_shape", "attr")
            if shape == "libmodel":
                shape = "attr" if fld != "state" else "missing"
            if shape in ("attr", "default"):
                body.append(f"    {fld} = None")
            elif shape == "missing":
                pass
            elif shape == "property":
                body += ["    def __init__(self):", "        self._stored = None", "    @property", f"    def {fld}(self):",
                         "        return self._stored", f"    @{fld}.setter", f"    def {fld}(self, v):", "        self._stored = v"]
            elif shape == "falsy_len":
                body += [f"    {fld} = None", "    def __len__(self):", "        return 0"]
            elif shape == "falsy_bool":
                body += [f"    {fld} = None", "    def __bool__(self):", "        return False"]
            elif shape == "instance_attr":
                body += ["    def __init__(self):", f"        self.{fld} = None"]
        for cid, cb in spec["cbs"].items():
            if cb["provider"] == prov and not cb.get("inst"):
                body += _cb_def(cid, cb)
        for nm, g in spec["guards"].items():
            if prov in g["providers"]:
                body += _guard_def(nm, g, prov)
            elif g.get("decoy") == prov and _guard_by_obj(g) and not spec.get("style"):
                # an unrelated method that merely has the same NAME as a guard function passed by object
                body += _guard_def(nm, dict(g, kind="method"), prov)
        for nm, v in spec["validators"].items():
            if prov in v["providers"]:
                body += _validator_def(nm, v, prov)
        if prov != "model" and spec.get("falsy_listeners"):
            # a listener that is falsy (an empty journal list subclass, an object with __len__ == 0)
            body += (["    def __len__(self):", "        return 0"] if spec["falsy_listeners"] == "len" else
                     ["    def __bool__(self):", "        return False"])
        if prov != "model" and spec.get("eq_listeners"):
            # distinct listener objects that compare (and hash) equal, e.g. value objects
            body += ["    def __eq__(self, other):", "        return getattr(other, '_eqkey', None) == 'same'", "    _eqkey = 'same'"]
            if spec["eq_listeners"] == "unhashable":
                body += ["    __hash__ = None      # e.g. a plain (non-frozen) dataclass"]
            else:
                body += ["    def __hash__(self):", "        return 7"]
        if prov == "model" and spec.get("eq_listeners") and zlib.crc32(str(spec["uid"]).encode()) % 3 == 0:
            # ... and a model those value-object listeners compare equal to (it is still another object)
            body.append("    _eqkey = 'same'")
        if zlib.crc32(str(spec["uid"]).encode()) % 7 == 0 and not any(
                ln.lstrip().startswith(("name =", "def name(")) for ln in body):
            # every provider of this machine carries the same truthy `name` attribute (two plug-ins of
            # one kind, a model called like a listener): providers are told apart by identity, not by name
            body.append("    name = 'audit'")
        L += body or ["    pass"]
        L.append("")
    # per-instance hooks (assigned on the object, not defined on its class)
    for cid, cb in spec["cbs"].items():
        if cb.get("inst"):
            L += _cb_def(cid, dict(cb, name=f"_inst_{cid}"), indent="")
            L.append("")
    if _providers_only:
        return L
    strict = spec["opts"].get("strict")
    L.append(f"class M_{uid}(StateMachine{', strict_states=True' if strict else ''}):")
    # functions referenced by object
    for cid, cb in spec["cbs"].items():
        if cb["provider"] == "sm" and cb["kind"] == "func":
            L += _cb_def(cid, cb)
    # guards referenced by object (the function itself is passed as cond= / unless=)
    for nm, g in spec["guards"].items():
        if _guard_by_obj(g) and g["by_obj"] != "module":
            L += _guard_def(nm, g, "sm")
    # states
    for st in spec["states"]:
        kw = []
        if st.get("name"):
            kw.append(repr(st["name"]))
        if st.get("value") is not None:
            kw.append(f"value={st['value']['expr']}")
        if st["initial"]:
            kw.append("initial=True")
        if st["final"]:
            kw.append("final=True")
        refs = spec["state_refs"].get(st["id"], {})
        for g in ("enter", "exit"):
            items = [_ref_expr(spec, r) for r in refs.get(g, [])]
            if items:
                kw.append(f"{g}={_list_expr(items)}")
        L.append(f"    {st['id']} = State({', '.join(kw)})")
    # transitions
    def t_kwargs(t):
        return transition_kwargs(spec, t)

    def _unused(t):
        kw = []
        conds = [repr(g["name"]) for g in t["guards"] if g["kind"] == "cond"]
        unl = [repr(g["name"]) for g in t["guards"] if g["kind"] == "unless"]
        if conds:
            kw.append(f"cond={_list_expr(conds)}")
        if unl:
            kw.append(f"unless={_list_expr(unl)}")
        if t["validators"]:
            kw.append(f"validators={_list_expr([repr(v) for v in t['validators']])}")
        for g in ("before", "on", "after"):
            items = [_ref_expr(spec, r) for r in t["refs"][g]]
            if items:
                kw.append(f"{g}={_list_expr(items)}")
        if t["internal"]:
            kw.append("internal=True")
        return kw

    explicit = [t for t in spec["transitions"] if t.get("from_any") is None]
    for t in explicit:
        args = ", ".join([t["dst"]] + t_kwargs(t))
        L.append(f"    _t{t['i']} = {t['src']}.to({args})")
    for e in spec["events"]:
        ts = [f"_t{t['i']}" for t in explicit if e in t["events"]]
        for d in spec.get("any_decls", []):
            if d["event"] == e:
                proto = spec["transitions"][d["proto"]]
                ts.append(f"{d['dst']}.from_.any({', '.join(t_kwargs(proto))})")
        L.append(f"    {e} = {' | '.join(ts)}")
    if explicit:
        L.append("    del " + ", ".join(f"_t{t['i']}" for t in explicit))
    # methods
    for cid, cb in spec["cbs"].items():
        if cb["provider"] == "sm" and cb["kind"] == "method":
            L += _cb_def(cid, cb)
    for nm, g in spec["guards"].items():
        if "sm" in g["providers"] and not _guard_by_obj(g):
            L += _guard_def(nm, g, "sm")
    for nm, v in spec["validators"].items():
        if "sm" in v["providers"]:
            L += _validator_def(nm, v, "sm")
    for extra in spec.get("extra_members", []):
        L += ["    " + ln for ln in extra.split("\n")]
    # decorators
    for cid, cb in spec["cbs"].items():
        if cb["kind"] == "deco":
            d = cb["deco"]
            tgt = d["event"] if d["target"] == "event" else d["state"]
            L.append(f"    @{tgt}.{d['group']}")
            L += _cb_def(cid, cb)
    return "\n".join(L) + "\n"


def load(spec, rec, source=None, cls_suffix=""):
    """exec the rendered source in a module registered in sys.modules (pickle-friendly)."""
    from statemachine import State, StateMachine
    from statemachine.event import Event
    from statemachine.mixins import MachineMixin
    from statemachine.states import States

    uid = f"{spec['uid']}{cls_suffix}"
    source = source if source is not None else render(spec, cls_suffix)
    modname = f"vmon_dyn_{uid}"
    mod = types.ModuleType(modname)
    from statemachine.model import Model as _LibModel
    mod.__dict__.update({"State": State, "StateMachine": StateMachine, "Event": Event, "States": States, "REC": rec, "MachineMixin": MachineMixin,
                         "LibModel": _LibModel})
    for k, v in spec.get("ns_extra", {}).items():
        mod.__dict__[k] = v
    sys.modules[modname] = mod
    exec(compile(source, f"<{modname}>", "exec"), mod.__dict__)
    return mod, source


def unload(spec, cls_suffix=""):
    sys.modules.pop(f"vmon_dyn_{spec['uid']}{cls_suffix}", None)
    release_library_caches()


def release_library_caches(prefixes=("vmon_", "<")):
    """Generated classes are kept alive by two process-global tables of the library (class registry,
    signature cache). Workers create tens of thousands of classes: drop our entries so that the heap
    (and with it every GC pass) does not grow with the number of scenarios. Private names; skipped
    silently when they are gone."""
    try:
        from statemachine import registry

        reg = getattr(registry, "_REGISTRY", None)
        if isinstance(reg, dict):
            for k in [k for k, v in reg.items() if str(getattr(v, "__module__", "")).startswith(prefixes)]:
                del reg[k]
    except Exception:  # noqa: BLE001
        pass
    try:
        from statemachine.signature import SignatureAdapter

        clear = getattr(SignatureAdapter.from_callable, "clear_cache", None)
        if clear is not None:
            clear()
    except Exception:  # noqa: BLE001
        pass


def attach_instance_hooks(spec, mod, objs, role):
    import types

    for cid, cb in spec["cbs"].items():
        if cb.get("inst") == role and objs.get(cb["provider"]) is not None:
            obj = objs[cb["provider"]]
            setattr(obj, cb["name"], types.MethodType(getattr(mod, f"_inst_{cid}"), obj))


def provider_objects(spec, mod, cls_suffix="", role="main"):
    """Instantiate model and listener objects of a loaded spec."""
    objs = _provider_objects(spec, mod, cls_suffix)
    attach_instance_hooks(spec, mod, objs, role)
    return objs


def _provider_objects(spec, mod, cls_suffix=""):
    uid = f"{spec['uid']}{cls_suffix}"
    objs = {}
    if spec.get("mixin"):
        # the mixin model builds its machine in __init__: instantiated by the construct step
        objs["model"] = None
    for prov in spec["providers"] + spec.get("late", []):
        if prov == "sm" or (prov == "model" and spec.get("mixin")):
            continue
        cname = f"Mod_{uid}" if prov == "model" else f"{prov.upper()}_{uid}"
        objs[prov] = getattr(mod, cname)()
    if "model" not in objs:
        objs["model"] = getattr(mod, f"Mod_{uid}")()
    return objs
