"""Recorder at the client boundary.

Generated user callbacks call ``REC.run(cb_id, self, args, kwargs)`` (or ``await REC.arun``):
the recorder logs begin/end with what the library injected, executes the callback's *script*
(nested sends, suspension points, scripted return value, injected fault) and returns.
Drivers log ``send_call`` / ``send_return`` around every real call into the library.

The log is an append-only list guarded by one lock with one monotonic sequence number.
"""

from __future__ import annotations

import inspect
import sys
import threading

BUILTIN_KW = ("event_data", "machine", "event", "model", "transition", "state", "source", "target")


class FaultA(Exception):
    """Injected failure."""


class ValidatorError(Exception):
    """Raised by generated validators."""


class FaultBase(BaseException):
    """Injected non-Exception failure (separate fault class)."""


def _variants(base):
    """The same failure as a subclass of built-in exception types a library might treat specially
    (swallowed by getattr/hasattr, used for control flow, caught to retry). Same __name__ on purpose:
    the oracle identifies the failure by that name."""
    out = [base]
    for mix in (RuntimeError, AttributeError, KeyError, NotImplementedError, TypeError, LookupError, ValueError):
        out.append(type(base.__name__, (base, mix), {"__module__": base.__module__}))
    # an exception object that is falsy (defines __len__ / __bool__): `if error:` is not `if error is not None`
    out.append(type(base.__name__, (base,), {"__module__": base.__module__, "__bool__": lambda self: False}))
    out.append(type(base.__name__, (base,), {"__module__": base.__module__, "__len__": lambda self: 0}))
    return out


FAULT_VARIANTS = _variants(FaultA)
VALIDATOR_VARIANTS = _variants(ValidatorError)
# StopIteration is control flow for iterators (all(map(...)) would take it as "exhausted"); only raised
# from synchronous callables of synchronous machines (inside a coroutine Python itself turns it into
# RuntimeError, PEP 479)
VALIDATOR_STOP = type("ValidatorError", (ValidatorError, StopIteration), {"__module__": ValidatorError.__module__})
FAULT_STOP = type("FaultA", (FaultA, StopIteration), {"__module__": FaultA.__module__})


class Sent:
    """Unique sentinel return value."""

    __slots__ = ("tag",)

    def __init__(self, tag):
        self.tag = tag

    def __repr__(self):
        return f"Sent({self.tag})"


class EqAll:
    """A return value that compares equal to everything (a matcher object such as mock.ANY): results
    must be told apart by identity / position, never by ==."""

    __slots__ = ("tag",)

    def __init__(self, tag):
        self.tag = tag

    def __eq__(self, other):
        return True

    def __ne__(self, other):
        return False

    def __hash__(self):
        return 1

    def __repr__(self):
        return f"EqAll({self.tag})"


TRUTHY = [True, 1, "x", [0], 2.5, (0,)]
FALSY = [False, 0, "", None, [], 0.0]


def ret_value(code, cb_id):
    """Scripted return values by code."""
    if code == "sent":
        return Sent(cb_id)
    if code == "eqall":
        return EqAll(cb_id)
    return {
        "none": None, "zero": 0, "false": False, "empty": "", "elist": [], "list": [cb_id, 1],
        "tuple": (cb_id,), "dict": {"k": cb_id}, "str": "r-" + cb_id, "etuple": (), "one": 1,
    }[code]


RET_CODES = ["sent", "sent", "sent", "none", "zero", "false", "empty", "elist", "list", "tuple",
             "dict", "str", "etuple", "one", "eqall"]


def frame_depth():
    f = sys._getframe(1)
    n = 0
    while f is not None:
        n += 1
        f = f.f_back
    return n


class Recorder:
    def __init__(self, spec=None):
        self.lock = threading.Lock()
        self.log = []
        self.seq = 0
        self.scripts = {}       # cb_id -> script dict
        self.val = {}           # guard / validator valuation: name -> value | "raise"
        self.tokn = 0
        self.invocation = 0     # counts callback invocations (crash points)
        self.fault_at = None    # invocation index at which to raise
        self.fault_when = "after_sends"
        self.fault_exc = FaultA
        self.fault_fired = None
        self.state_field = "state"
        self.gate = None        # asyncio gate / thread scheduler for suspension points
        self.depth_probe = False
        self.extern_write = None  # optional hook used by C10 scenarios
        self.open_cbs = []      # stack of open callback ids (sync) — informational

    # ------------------------------------------------------------------ low level
    def emit(self, kind, **fields):
        with self.lock:
            self.seq += 1
            fields["k"] = kind
            fields["n"] = self.seq
            self.log.append(fields)
            return self.seq

    def new_token(self, prefix="d"):
        with self.lock:
            self.tokn += 1
            return f"{prefix}{self.tokn}"

    # ------------------------------------------------------------------ observation
    def _observe(self, self_obj, args, kwargs):
        info = {}
        machine = kwargs.get("machine")
        for key in ("source", "target", "state"):
            obj = kwargs.get(key)
            info[key] = getattr(obj, "id", None) if obj is not None else None
        ev = kwargs.get("event")
        info["event"] = str(ev) if ev is not None else None
        info["tok"] = kwargs.get("_tok", "__initial__" if info["event"] == "__initial__" else None)
        if machine is not None:
            try:
                info["cur"] = machine.current_state.id
            except Exception as err:  # noqa: BLE001
                info["cur"] = "ERR:" + type(err).__name__
            try:
                info["field"] = repr(getattr(machine.model, machine.state_field, None))
            except Exception as err:  # noqa: BLE001
                info["field"] = "ERR:" + type(err).__name__
        ed = kwargs.get("event_data")
        tr = kwargs.get("transition")
        if tr is not None:
            info["t_src"] = getattr(tr.source, "id", None)
            info["t_dst"] = getattr(tr.target, "id", None)
            info["t_int"] = bool(getattr(tr, "internal", False))
        if ed is not None:
            try:
                info["ed_ok"] = ed.transition is tr and ed.machine is machine
                info["ed_view"] = [getattr(ed.state, "id", None), getattr(ed.source, "id", None),
                                   getattr(ed.target, "id", None), str(ed.event)]
                td = ed.trigger_data
                info["ed_ok"] = info["ed_ok"] and td.machine is machine and td.model is kwargs.get("model") and td.event is ed.event
                info["ed_args"] = [a if isinstance(a, (int, str, float, type(None))) else repr(a) for a in ed.args]
                info["ed_ukw"] = sorted(k for k in td.kwargs if k != "_tok")
            except Exception:  # noqa: BLE001
                info["ed_ok"] = False
        info["model_ok"] = (kwargs.get("model") is machine.model) if machine is not None else None
        info["mid"] = id(_real(machine)) if machine is not None else None
        info["sid"] = id(self_obj) if self_obj is not None else None
        info["args"] = [a if isinstance(a, (int, str, float, type(None))) else repr(a) for a in args]
        info["ukw"] = {
            k: (v if isinstance(v, (int, str, float, type(None))) else repr(v))
            for k, v in kwargs.items() if k not in BUILTIN_KW and k != "_tok"
        }
        if self.depth_probe:
            info["depth"] = frame_depth()
        return info

    allow_stop_iteration = False

    def _validator_class(self):
        pool = VALIDATOR_VARIANTS + ([VALIDATOR_STOP] if self.allow_stop_iteration else [])
        return pool[len(self.log) % len(pool)]

    def _fault_class(self, inv):
        if self.fault_exc is FaultA:
            pool = FAULT_VARIANTS + ([FAULT_STOP] if self.allow_stop_iteration else [])
            return pool[inv % len(pool)]
        return self.fault_exc

    def _fault_due(self):
        self.invocation += 1
        fa = self.fault_at
        if fa is None:
            return False
        if isinstance(fa, (list, tuple, set)):
            return self.invocation in fa
        return self.invocation == fa

    # ------------------------------------------------------------------ sync callbacks
    def run(self, cb_id, self_obj, args, kwargs):
        script = self.scripts.get(cb_id, {})
        info = self._observe(self_obj, args, kwargs)
        with self.lock:
            due = self._fault_due()
            inv = self.invocation
        self.emit("cb_begin", cb=cb_id, inv=inv, **info)
        try:
            if due and self.fault_when == "before_sends":
                self.fault_fired = (cb_id, inv)
                raise self._fault_class(inv)(f"fault@{inv}:{cb_id}")
            if self.gate is not None:
                for _ in range(script.get("yields", 0)):
                    self.gate.yield_point(cb_id)
            machine = kwargs.get("machine")
            self._scripted_write(cb_id, script, machine)
            for snd in script.get("sends", ()):
                self.nested_send(machine, snd, cb_id)
            if due:
                self.fault_fired = (cb_id, inv)
                raise self._fault_class(inv)(f"fault@{inv}:{cb_id}")
            value = ret_value(script.get("ret", "none"), cb_id)
        except BaseException as err:
            self.emit("cb_end", cb=cb_id, tok=info["tok"], exc=type(err).__name__, excid=id(err))
            raise
        self.emit("cb_end", cb=cb_id, tok=info["tok"], ret=script.get("ret", "none"))
        return value

    def nested_send(self, machine, snd, cb_id):
        tok = self.new_token("n")
        self.emit("send_call", tok=tok, event=snd["event"], nested=cb_id, style="send")
        try:
            res = machine.send(snd["event"], *snd.get("args", ()), _tok=tok, **snd.get("kwargs", {}))
            if inspect.isawaitable(res):
                # plain callback on the async engine: documented as "not recommended" (H7)
                # the event is on the queue already; the coroutine only drives the (busy) processing loop
                res.close()
                self.emit("send_return", tok=tok, val=res_repr(None), closed_coroutine=True)
                return None
        except BaseException as err:
            self.emit("send_return", tok=tok, exc=type(err).__name__, excid=id(err), exc_info=exc_info(err))
            raise
        self.emit("send_return", tok=tok, val=res_repr(res))
        return res

    # ------------------------------------------------------------------ async callbacks
    async def arun(self, cb_id, self_obj, args, kwargs):
        script = self.scripts.get(cb_id, {})
        info = self._observe(self_obj, args, kwargs)
        with self.lock:
            due = self._fault_due()
            inv = self.invocation
        self.emit("cb_begin", cb=cb_id, inv=inv, **info)
        try:
            if due and self.fault_when == "before_sends":
                self.fault_fired = (cb_id, inv)
                raise self._fault_class(inv)(f"fault@{inv}:{cb_id}")
            for _ in range(script.get("yields", 0)):
                if self.gate is not None:
                    await self.gate.point(cb_id)
                else:
                    import asyncio

                    await asyncio.sleep(0)
            machine = kwargs.get("machine")
            self._scripted_write(cb_id, script, machine)
            for snd in script.get("sends", ()):
                tok = self.new_token("n")
                self.emit("send_call", tok=tok, event=snd["event"], nested=cb_id, style="send")
                try:
                    res = machine.send(snd["event"], *snd.get("args", ()), _tok=tok, **snd.get("kwargs", {}))
                    if inspect.isawaitable(res):
                        res = await res
                except BaseException as err:
                    self.emit("send_return", tok=tok, exc=type(err).__name__, excid=id(err), exc_info=exc_info(err))
                    raise
                self.emit("send_return", tok=tok, val=res_repr(res))
            if due:
                self.fault_fired = (cb_id, inv)
                raise self._fault_class(inv)(f"fault@{inv}:{cb_id}")
            value = ret_value(script.get("ret", "none"), cb_id)
        except BaseException as err:
            self.emit("cb_end", cb=cb_id, tok=info["tok"], exc=type(err).__name__, excid=id(err))
            raise
        self.emit("cb_end", cb=cb_id, tok=info["tok"], ret=script.get("ret", "none"))
        return value

    def _scripted_write(self, cb_id, script, machine):
        if script.get("poke") and self.poke is not None:
            self.emit("note", what="poke", cb=cb_id, event=script["poke"])
            self.poke(cb_id, script["poke"])
        w = script.get("write")
        if w is None or machine is None:
            return
        value = self.write_values[w]
        setattr(machine.model, machine.state_field, value)
        self.emit("cb_write", cb=cb_id, target=w)

    write_values = {}
    poke = None

    # ------------------------------------------------------------------ guards / validators
    def guard(self, gid, name, kwargs=None):
        """gid: unique id of this guard function (name@provider). Returns the valuation."""
        kwargs = kwargs or {}
        v = self.val.get(name, True)
        if isinstance(v, dict) and "by_target" in v:
            v = v["by_target"].get(getattr(kwargs.get("target"), "id", None), True)
        if isinstance(v, dict):
            v = v.get(gid.split("@")[1], True)
        ev = kwargs.get("event")
        tr = kwargs.get("transition")
        self.emit(
            "guard", g=gid, name=name, mid=id(_real(kwargs["machine"])) if kwargs.get("machine") is not None else None, tok=kwargs.get("_tok"), val=bool(v) if v != "raise" else "raise",
            event=str(ev) if ev is not None else None,
            t_src=getattr(getattr(tr, "source", None), "id", None),
            t_dst=getattr(getattr(tr, "target", None), "id", None),
            tid=id(tr) if tr is not None else None,
            state=getattr(kwargs.get("state"), "id", None),
        )
        if v == "raise":
            if not kwargs and len(self.log) % 2 == 0:
                # a property guard: AttributeError is the one exception that getattr()/hasattr() swallow
                raise VALIDATOR_VARIANTS[2](gid)
            raise self._validator_class()(gid)
        return v

    async def aguard(self, gid, name, kwargs=None):
        """Coroutine guard: logs begin (inside guard()), suspends, logs end."""
        import asyncio

        v = self.guard(gid, name, kwargs)
        for _ in range(self.guard_yields.get(name, 0)):
            await asyncio.sleep(0)
        self.emit("guard_end", g=gid, name=name, tok=(kwargs or {}).get("_tok"))
        return v

    guard_yields = {}

    def validator(self, gid, name, kwargs=None):
        kwargs = kwargs or {}
        v = self.val.get(name, "ok")
        if isinstance(v, dict):
            v = v.get(gid.split("@")[1], "ok")
        tr = kwargs.get("transition")
        ev = kwargs.get("event")
        self.emit(
            "validator", g=gid, name=name, tok=kwargs.get("_tok"), raises=(v == "raise"),
            event=str(ev) if ev is not None else None,
            t_src=getattr(getattr(tr, "source", None), "id", None),
            t_dst=getattr(getattr(tr, "target", None), "id", None),
        )
        if v == "raise":
            err = self._validator_class()(gid)
            self.emit("validator_raise", g=gid, excid=id(err))
            raise err
        return None


def _real(machine):
    """The engine hands a weakref proxy of the machine to initial-activation callbacks."""
    try:
        return machine.add_listener.__self__
    except Exception:  # noqa: BLE001
        return machine


def res_repr(res):
    """JSON-able structural description of a send result (identity of sentinels kept by tag)."""
    if isinstance(res, Sent):
        return {"sent": res.tag}
    if isinstance(res, EqAll):
        return {"eqall": res.tag}
    if isinstance(res, list):
        return {"list": [res_repr(x) for x in res]}
    if isinstance(res, tuple):
        return {"tuple": [res_repr(x) for x in res]}
    if isinstance(res, dict):
        return {"dict": {str(k): res_repr(v) for k, v in res.items()}}
    if res is None or isinstance(res, (bool, int, float, str)):
        return {"v": res, "t": type(res).__name__}
    if inspect.iscoroutine(res):
        res.close()
        return {"coroutine": True}
    return {"repr": repr(res)}


def expected_ret_repr(code, cb_id):
    return res_repr(ret_value(code, cb_id))


def exc_info(err):
    info = {"type": type(err).__name__, "id": id(err)}
    ev = getattr(err, "event", None)
    st = getattr(err, "state", None)
    if ev is not None:
        info["event"] = str(ev)
    if st is not None:
        info["state"] = getattr(st, "id", None)
    return info
