"""Scenario executor: drives the real library at the client boundary and records the history."""

from __future__ import annotations

import zlib
import asyncio
import gc
import inspect
import warnings

from . import render
from .rec import FALSY, TRUTHY, Recorder, exc_info, res_repr


class Scenario:
    """spec + ordered driver steps. Steps are plain dicts (JSON-able)."""

    def __init__(self, spec, steps, driver="sync"):
        self.spec = spec
        self.steps = steps
        self.driver = driver   # sync | inloop

    def to_json(self):
        return {"spec": self.spec, "steps": self.steps, "driver": self.driver}


class Run:
    def __init__(self, scenario, fault=None, rec=None, send_budget=8, keep_objects=False):
        self.sc = scenario
        self.spec = scenario.spec
        self.rec = rec or Recorder()
        self.rec.scripts = {cid: cb["script"] for cid, cb in self.spec["cbs"].items()}
        self.rec.state_field = self.spec.get("state_field", "state")
        self.send_budget = send_budget
        self.fault = fault
        self.sm = None
        self.objs = None
        self.mod = None
        self.source = None
        self.warnings = []
        self.keep = keep_objects
        _patch_budget(self.rec, send_budget)
        self.rec.poke = self._poke
        self.rec.allow_stop_iteration = not scenario.spec.get("any_async")

    # ------------------------------------------------------------------
    def execute(self):
        if self.fault:
            self.rec.fault_at = self.fault["at"]
            self.rec.fault_when = self.fault.get("when", "after_sends")
            if self.fault.get("exc") == "base":
                from .rec import FaultBase

                self.rec.fault_exc = FaultBase
        import logging
        import sys

        records = []

        class _H(logging.Handler):
            def emit(self, record):  # noqa: A003
                try:
                    records.append(record.getMessage()[:300])
                except Exception:  # noqa: BLE001
                    records.append("<unformattable asyncio log record>")

        handler = _H()
        alog = logging.getLogger("asyncio")
        alog.addHandler(handler)
        unraisable = []
        old_hook = sys.unraisablehook
        sys.unraisablehook = lambda u: unraisable.append(f"{type(u.exc_value).__name__}: {u.exc_value} in {u.object!r}"[:300])
        with warnings.catch_warnings(record=True) as wrec:
            warnings.simplefilter("always")
            try:
                if self.sc.driver == "inloop":
                    asyncio.run(self._amain())
                elif self.sc.driver == "threads":
                    self._tmain()
                else:
                    self._main()
            finally:
                gc.collect()
                self._drain_cached_loop()
                gc.collect()
                alog.removeHandler(handler)
                sys.unraisablehook = old_hook
        self.warnings = [(w.category.__name__, str(w.message)[:200]) for w in wrec]
        self.asyncio_log = records
        self.unraisable = unraisable
        render.unload(self.spec)
        return self.rec.log

    def _drain_cached_loop(self):
        try:
            from statemachine.utils import _cached_loop

            loop = getattr(_cached_loop, "loop", None)
            if loop is not None and not loop.is_running() and not loop.is_closed():
                for _ in range(5):
                    pending = [t for t in asyncio.all_tasks(loop) if not t.done()]
                    if not pending:
                        break
                    loop.run_until_complete(asyncio.sleep(0))
        except Exception:  # noqa: BLE001
            pass

    # ------------------------------------------------------------------ steps (sync driver)
    def _one_step_sync(self, step):
        self._one_step_gen(self._step(step))

    def _one_step_gen(self, gen):
        try:
            pending = next(gen)
            while True:
                # a step yields awaitables only under the in-loop driver
                if inspect.isawaitable(pending):
                    raise RuntimeError("awaitable under sync driver")
                pending = gen.send(pending)
        except StopIteration:
            pass

    def _main(self):
        for step in self.sc.steps:
            self._one_step_sync(step)

    def _tmain(self):
        """Sync driver alternating between two OS threads that have no event loop."""
        from concurrent.futures import ThreadPoolExecutor

        exs = [ThreadPoolExecutor(1), ThreadPoolExecutor(1)]
        try:
            for i, step in enumerate(self.sc.steps):
                exs[i % 2].submit(self._one_step_sync, step).result()
        finally:
            for ex in exs:
                try:
                    ex.submit(self._close_thread_loop).result()
                finally:
                    ex.shutdown()

    def _close_thread_loop(self):
        from statemachine.utils import _cached_loop

        loop = getattr(_cached_loop, "loop", None)
        if loop is None:
            return
        self._drain_cached_loop()
        try:
            loop.close()
        finally:
            try:
                del _cached_loop.loop
            except AttributeError:
                pass

    async def _amain(self):
        for step in self.sc.steps:
            gen = self._step(step)
            try:
                pending = next(gen)
                while True:
                    if inspect.isawaitable(pending):
                        try:
                            pending = await pending
                        except BaseException as err:  # noqa: BLE001
                            pending = gen.throw(err)
                            continue
                    pending = gen.send(pending)
            except StopIteration:
                pass

    def _step(self, step):
        """Generator: yields values that may be awaitable (in-loop driver awaits them and sends
        the result back); under the sync driver the value is sent back unchanged."""
        rec = self.rec
        op = step["op"]
        rec.send_budget = self.send_budget
        if "val" in step and step["val"] is not None:
            rec.val = dict(step["val"])
            if self.sm is not None:
                self._push_attr_guards()
        if op == "construct":
            yield from self._construct(step)
        elif op == "send":
            yield from self._send(step)
        elif op == "activate":
            if self.sm is None:
                return
            rec.emit("step", op="activate", phase="begin")
            try:
                res = self.sm.activate_initial_state()
                import inspect as _i
                # inside a running loop the caller writes `await sm.activate_initial_state()`, whatever
                # the machine's state: the call must hand back something awaitable
                awaitable = _i.isawaitable(res) if (self.sc.driver == "inloop" and self.spec.get("any_async")) else None
                res = yield res
                rec.emit("step", op="activate", phase="end", awaitable=awaitable)
            except BaseException as err:  # noqa: BLE001
                if not isinstance(err, Exception) and type(err).__name__ != "FaultBase":
                    raise
                rec.emit("step", op="activate", phase="end", exc=type(err).__name__, exc_msg=str(err)[:200])
            self._probe()
        elif op == "add_listener":
            if self.sm is None:
                return
            provs = step["providers"]
            rec.emit("step", op="add_listener", phase="begin", providers=provs)
            try:
                # `add_observer` is the older spelling of the same entry point (deprecated alias)
                attach = self.sm.add_observer if step.get("via") == "observer" else self.sm.add_listener
                attach(*[self.objs[p] for p in provs])
                rec.emit("step", op="add_listener", phase="end", providers=provs)
            except Exception as err:  # noqa: BLE001
                rec.emit("step", op="add_listener", phase="end", providers=provs, exc=type(err).__name__, exc_msg=str(err)[:200])
        elif op == "probe":
            self._probe()
        elif op == "bind_model":
            if self.sm is not None:
                with warnings.catch_warnings():
                    warnings.simplefilter("ignore")
                    self.sm.bind_events_to(self.sm.model)
        else:
            handler = getattr(self, "op_" + op, None)
            if handler is None:
                raise ValueError(op)
            yield from handler(step)

    def _push_attr_guards(self):
        for nm, g in self.spec["guards"].items():
            if g["kind"] == "attr":
                v = self.rec.val.get(nm, True)
                for p in g["providers"]:
                    obj = self.sm if p == "sm" else self.objs.get(p)
                    if obj is not None:
                        setattr(obj, nm, v)

    def _construct(self, step):
        rec = self.rec
        spec = self.spec
        reuse = bool(step.get("reuse_model")) and self.mod is not None
        if step.get("reuse_class") and self.mod is not None:
            if not step.get("keep_objs"):
                self.objs = render.provider_objects(spec, self.mod)
        elif not reuse and getattr(self, "preloaded", False):
            self.preloaded = False
            self.objs = render.provider_objects(spec, self.mod)
        elif not reuse:
            try:
                self.source = step.get("source") or render.render(spec)
                self.mod, self.source = render.load(spec, rec, source=self.source)
            except Exception as err:  # noqa: BLE001  the class statement itself was rejected
                rec.emit("step", op="construct", phase="begin", val=dict(rec.val), stored=None, start=None, reuse=False)
                rec.emit("step", op="construct", phase="end", exc=type(err).__name__,
                         exc_msg="class definition: " + str(err)[:250])
                self.sm = None
                return
            self.objs = render.provider_objects(spec, self.mod)
        rec.write_values = {
            st["id"]: (eval(st["value"]["expr"], self.mod.__dict__) if st.get("value") else st["id"])  # noqa: S307
            for st in spec["states"]
        }
        cls = getattr(self.mod, f"M_{spec['uid']}")
        listeners = [self.objs[p] for p in step.get("listeners", [p for p in spec["providers"] if p not in ("sm", "model")])]
        model = self.objs["model"]
        stored = step.get("stored")
        if stored is not None and model is not None:
            setattr(model, spec.get("state_field", "state"), eval(step["stored_expr"], self.mod.__dict__))  # noqa: S307
        kw = {"rtc": spec["opts"]["rtc"], "allow_event_without_transition": spec["opts"]["allow"]}
        if zlib.crc32(str(spec["uid"]).encode()) % 5 == 1:
            # options read from a configuration file / environment as 0 / 1 instead of False / True
            kw = {k_: int(v_) for k_, v_ in kw.items()}
        if listeners:
            kw["listeners"] = listeners
        if spec.get("state_field", "state") != "state":
            kw["state_field"] = spec["state_field"]
        if step.get("start") is not None:
            kw["start_value"] = eval(step["start_expr"], self.mod.__dict__)  # noqa: S307
        # attribute guards need their value before instantiation (initial enter may send events)
        for nm, g in spec["guards"].items():
            if g["kind"] == "attr":
                v = rec.val.get(nm, True)
                for p in g["providers"]:
                    if p == "sm":
                        setattr(cls, nm, v)
                    elif self.objs.get(p) is not None:
                        setattr(self.objs[p], nm, v)
        rec.emit("step", op="construct", phase="begin", val=dict(rec.val), stored=stored, start=step.get("start"), reuse=reuse)
        self.last_start = step.get("start")
        self.user_model = model
        try:
            if spec.get("mixin"):
                mcls = getattr(self.mod, f"Mod_{spec['uid']}")
                if spec["mixin"] == "first" and stored is not None:
                    model = mcls(stored=eval(step["stored_expr"], self.mod.__dict__))  # noqa: S307
                else:
                    model = mcls()
                self.objs["model"] = model
                self.user_model = model
                self.sm = model.statemachine
            elif spec.get("model_shape") == "default":
                self.sm = cls(**kw)
                self.user_model = None
            else:
                self.sm = cls(model, **kw)
            self._push_attr_guards()
            ids = {p: id(o) for p, o in self.objs.items() if o is not None}
            ids["sm"] = id(self.sm)
            ids["model"] = id(self.sm.model)
            rec.emit("step", op="construct", phase="end", ids=ids,
                     engine=type(self.sm._engine).__name__ if hasattr(self.sm, "_engine") else None)
        except BaseException as err:  # noqa: BLE001
            if not isinstance(err, Exception) and type(err).__name__ != "FaultBase":
                raise
            rec.emit("step", op="construct", phase="end", exc=type(err).__name__, exc_msg=str(err)[:300])
            self.sm = None
        self._probe()
        return
        yield  # pragma: no cover

    def _call_style(self, style, event, args, kwargs):
        sm = self.sm
        if style == "send":
            return sm.send(event, *args, **kwargs)
        if style == "method":
            return getattr(sm, event)(*args, **kwargs)
        if style == "events_item":
            for e in sm.events:
                if str(e) == event:
                    return e(*args, **kwargs)
            return sm.send(event, *args, **kwargs)
        if style == "allowed_item":
            for e in sm.allowed_events:
                if str(e) == event:
                    return e(*args, **kwargs)
            return sm.send(event, *args, **kwargs)
        if style == "send_item":
            # the trigger object itself (a str subclass) handed to send()
            for e in sm.events:
                if str(e) == event:
                    return sm.send(e, *args, **kwargs)
            return sm.send(event, *args, **kwargs)
        if style == "send_foreign_item":
            # a trigger object that belongs to ANOTHER machine (same event name): send() delivers to
            # the machine it is called on and treats the object as the name it carries
            foreign = self._foreign_machine(event)
            item = next(e for e in foreign.events if str(e) == event)
            try:
                return sm.send(item, *args, **kwargs)
            finally:
                if foreign.current_state.id != "za":
                    self.rec.emit("note", what="foreign-trigger-fired", event=event)
                    foreign.current_state = foreign.za
        if style == "mixin":
            tgt = self.objs["model"]
            if event in [str(e) for e in sm.events] and hasattr(tgt, event):
                return getattr(tgt, event)(*args, **kwargs)
            return sm.send(event, *args, **kwargs)
        if style == "model_bound":
            tgt = sm.model
            if event in [str(e) for e in sm.events] and hasattr(tgt, event):
                return getattr(tgt, event)(*args, **kwargs)
            return sm.send(event, *args, **kwargs)
        if style == "bound":
            tgt = getattr(self, "bound_target", None)
            if tgt is None:
                class _Target:
                    pass
                first, tgt = _Target(), _Target()
                declared = [str(e) for e in sm.events]
                # the first target already has an attribute named like one event: binding skips it
                # there (documented warning) but must still bind it on the other targets
                setattr(first, declared[len(declared) // 2], "occupied")
                self.bound_target = tgt
                import warnings as _w
                with _w.catch_warnings():
                    _w.simplefilter("ignore")
                    sm.bind_events_to(first, tgt)
            if event in [str(e) for e in sm.events] and not hasattr(tgt, event):
                self.rec.emit("note", what="bound-trigger-missing", event=event)
            if hasattr(tgt, event):
                return getattr(tgt, event)(*args, **kwargs)
            return sm.send(event, *args, **kwargs)
        raise ValueError(style)

    def _foreign_machine(self, event):
        """A callback-free two-state machine declaring the same event names (and `event`)."""
        from statemachine import State, StateMachine

        cache = self.__dict__.setdefault("_foreign", {})
        names = tuple(sorted(set(str(e) for e in self.sm.events) | {event}))
        if names not in cache:
            body = {"za": State(initial=True), "zb": State()}
            for nm in names:
                body[nm] = body["za"].to(body["zb"]) | body["zb"].to(body["za"])
            cache[names] = type("Foreign", (StateMachine,), body)()
        return cache[names]

    def _send(self, step):
        rec = self.rec
        if self.sm is None:
            return
        tok = rec.new_token("d")
        if step.get("pick") is not None:
            # state-aware choice made by the client from the machine's own allowed_events
            try:
                allowed = [str(e) for e in self.sm.allowed_events]
            except Exception:  # noqa: BLE001
                allowed = []
            if allowed:
                step = dict(step, event=allowed[step["pick"] % len(allowed)])
        args = list(step.get("args", ()))
        ukw = dict(step.get("kwargs", {}))
        style = step.get("style", "send")
        if style == "method" and not hasattr(type(self.sm), step["event"]):
            style = "send"
        self._push_attr_guards()
        rec.emit("step", op="send", phase="begin", val=dict(rec.val))
        rec.emit("send_call", tok=tok, event=step["event"], style=style, args=args, ukw=ukw)
        try:
            res = self._call_style(style, step["event"], args, dict(ukw, _tok=tok))
            if self.sc.driver == "inloop" and self.spec.get("any_async"):
                import inspect as _i
                if not _i.isawaitable(res):
                    # the caller writes `await sm.send(...)` for every event name, allowed or not, known or not
                    rec.emit("note", what="not-awaitable-in-loop", event=step["event"], style=style, got=type(res).__name__)
            res = yield res
            rec.emit("send_return", tok=tok, val=res_repr(res))
        except Exception as err:  # noqa: BLE001
            rec.emit("send_return", tok=tok, exc=type(err).__name__, exc_info=dict(exc_info(err), msg=str(err)[:200]))
        except BaseException as err:  # noqa: BLE001
            rec.emit("send_return", tok=tok, exc=type(err).__name__, exc_info=dict(exc_info(err), msg=str(err)[:200]))
            if not isinstance(err, Exception) and type(err).__name__ != "FaultBase":
                raise
        rec.emit("step", op="send", phase="end")
        self._probe()

    def _probe(self):
        sm = self.sm
        rec = self.rec
        if sm is None:
            return
        info = {}
        try:
            info["cur"] = sm.current_state.id
        except Exception as err:  # noqa: BLE001
            info["cur"] = None
            info["cur_err"] = type(err).__name__
        try:
            info["field"] = repr(getattr(sm.model, sm.state_field, None))
        except Exception as err:  # noqa: BLE001
            info["field"] = "ERR:" + type(err).__name__
        try:
            info["allowed"] = [str(e) for e in sm.allowed_events] if info["cur"] is not None else None
        except Exception as err:  # noqa: BLE001
            info["allowed"] = None
            info["allowed_err"] = type(err).__name__
        try:
            info["active"] = [s.id for s in sm.states if getattr(sm, s.id).is_active] if info["cur"] is not None else None
        except Exception as err:  # noqa: BLE001
            info["active"] = None
            info["active_err"] = type(err).__name__
        try:
            info["events"] = [str(e) for e in sm.events]
        except Exception as err:  # noqa: BLE001
            info["events_err"] = type(err).__name__
        try:
            info["csv"] = repr(sm.current_state_value)
            info["cs_value"] = repr(sm.current_state.value) if info["cur"] is not None else None
        except Exception as err:  # noqa: BLE001
            info["csv_err"] = type(err).__name__
        # auxiliary invariant I1 (private names; detaches silently when they are renamed)
        try:
            eng = sm._engine
            info["q_len"] = len(eng._external_queue)
            info["locked"] = eng._processing.locked()
        except Exception:  # noqa: BLE001
            pass
        if getattr(self, "user_model", None) is not None:
            info["model_is_users"] = sm.model is self.user_model
        rec.emit("step", op="probe", phase="end", **info)

    def _swap_to_other(self):
        saved = (self.sm, self.objs, getattr(self, "user_model", None), self.rec.log, getattr(self, "bound_target", None))
        self._in_other = True
        self.sm, self.objs, self.user_model = self.other, self.other_objs, self.other_objs.get("model")
        self.rec.log = self.other_log
        self.bound_target = None
        return saved

    def _swap_back(self, saved):
        self.other = self.sm
        self._in_other = False
        self.sm, self.objs, self.user_model, self.rec.log, self.bound_target = saved

    def op_other(self, step):
        """Interference: activity on ANOTHER instance (same class, own model/listeners) or definitions
        of other classes. The other instance's history goes to a separate log (checked against the
        reference on its own); the main history must be unaffected."""
        rec = self.rec
        act = step["action"]
        if self.sm is None and act == "define_same_name" and self.mod is None:
            # an unrelated same-named class defined (and used) BEFORE the main class is instantiated
            try:
                if step.get("drop"):
                    # defined, used, dropped and garbage collected before the main class is even compiled
                    self.source = render.render(self.spec)
                    self._other_define(step, standalone=True)
                    self.source = None
                else:
                    self.mod, self.source = render.load(self.spec, rec)
                    self.preloaded = True
                    self._other_define(step)
                rec.emit("note", what="other-definition", action=act, pre=True)
            except Exception as err:  # noqa: BLE001
                rec.emit("note", what="other-definition", action=act, exc=f"{type(err).__name__}: {err}"[:200])
            return
        if self.sm is None and act == "construct_incomplete" and self.mod is None:
            # before the main machine exists: a rejected construction must leave nothing behind
            try:
                self.mod, self.source = render.load(self.spec, rec)
                self.preloaded = True
                self._construct_incomplete()
            except Exception as err:  # noqa: BLE001
                rec.emit("note", what="other-definition", action=act, exc=f"{type(err).__name__}: {err}"[:200])
            return
        if self.sm is None:
            return
        if not hasattr(self, "other_log"):
            self.other_log, self.other, self.other_objs = [], None, {}
        main_val = dict(rec.val)
        n0 = len(self.other_log)
        if act in ("define_same_name", "subclass", "invalid_def", "states_named_like_attrs"):
            try:
                self._other_define(step)
                rec.emit("note", what="other-definition", action=act)
            except Exception as err:  # noqa: BLE001
                rec.emit("note", what="other-definition", action=act, exc=f"{type(err).__name__}: {err}"[:200])
            return
        if act == "construct_incomplete":
            self._construct_incomplete()
            return
        if act == "odd_state_field":
            self._odd_state_field()
            return
        if act == "clone":
            self._clone(step)
            return
        if act == "construct":
            self.other_objs = render.provider_objects(self.spec, self.mod, role="other")
            if step.get("share"):
                self.other_objs[step["share"]] = self.objs[step["share"]]
                self.shared_provider = step["share"]
            self.other = self.sm      # placeholder so that swap works
            saved = self._swap_to_other()
            try:
                st2 = {"op": "construct", "reuse_class": True, "val": main_val, "keep_objs": True,
                       "listeners": [p for p in step.get("listeners", []) if p in self.objs]}
                if step.get("share") and step["share"] not in st2["listeners"]:
                    st2["listeners"].append(step["share"])
                yield from self._construct(st2)
            finally:
                self._swap_back(saved)
        elif self.other is not None:
            saved = self._swap_to_other()
            try:
                if act == "send":
                    yield from self._send({"op": "send", "event": step["event"], "style": step.get("style", "send"),
                                           "args": step.get("args", []), "kwargs": step.get("kwargs", {})})
                elif act == "activate":
                    self._push_attr_guards()
                    rec.emit("step", op="activate", phase="begin", val=dict(rec.val))
                    try:
                        res = self.sm.activate_initial_state()
                        res = yield res
                        rec.emit("step", op="activate", phase="end")
                    except Exception as err:  # noqa: BLE001
                        rec.emit("step", op="activate", phase="end", exc=type(err).__name__, exc_msg=str(err)[:200])
                    self._probe()
                elif act == "add_listener":
                    self.sm.add_listener(self.objs[step["provider"]])
            finally:
                self._swap_back(saved)
        rec.val = main_val
        self._check_isolation(n0, act)
        return
        yield  # pragma: no cover

    def _odd_state_field(self):
        """Another machine of the same class whose state_field is named like a guard / callback the
        machine class provides (the state is stored on the MODEL under that name, the machine's own
        attribute stays what it is); then one more ordinary instance: both must be accepted."""
        sp, rec = self.spec, self.rec
        names = sorted({n for n, g in sp["guards"].items() if g["providers"] == ["sm"] and g["kind"] == "method"
                        and any(x["name"] == n for t in sp["transitions"] for x in t["guards"])})
        if not names:
            return
        nm = names[len(rec.log) % len(names)]
        cls = type(self.sm)
        keep_log, rec.log = rec.log, []
        got = []
        try:
            import warnings as _w
            with _w.catch_warnings():
                _w.simplefilter("ignore")
                for kw in ({"state_field": nm}, {}):
                    objs = render.provider_objects(sp, self.mod, role="other")
                    try:
                        cls(objs["model"], listeners=[objs[p] for p in sp["providers"] if p not in ("sm", "model")], **kw)
                        got.append("built")
                    except Exception as err:  # noqa: BLE001
                        got.append(f"{type(err).__name__}: {err}"[:160])
        finally:
            rec.log = keep_log
        rec.emit("note", what="odd-state-field", name=nm, got=got)

    def _construct_incomplete(self):
        """Another machine of the SAME class over a bare model and without listeners: whether it is
        accepted depends on this construction alone (names only the missing providers have must be
        reported), not on the instances created before."""
        from statemachine.exceptions import InvalidDefinition

        sp, rec = self.spec, self.rec

        def only_missing(provs):
            return provs and "sm" not in provs

        cb_provs = {}
        for cb in sp["cbs"].values():
            cb_provs.setdefault(cb["name"], set()).add(cb["provider"])
        missing = set()
        for t in sp["transitions"]:
            for g in t["guards"]:
                if only_missing(set(sp["guards"][g["name"]]["providers"])):
                    missing.add(g["name"])
            for v in t["validators"]:
                if only_missing(set(sp["validators"][v]["providers"])):
                    missing.add(v)
            for grp in t["refs"].values():
                for r in grp:
                    if r["by"] == "name" and only_missing(cb_provs.get(r["name"], set())):
                        missing.add(r["name"])
        for refs in sp["state_refs"].values():
            for grp in refs.values():
                for r in grp:
                    if r["by"] == "name" and only_missing(cb_provs.get(r["name"], set())):
                        missing.add(r["name"])

        class _Bare:
            pass

        keep_log, rec.log = rec.log, []
        bare = _Bare()
        try:
            import warnings as _w
            with _w.catch_warnings():
                _w.simplefilter("ignore")
                try:
                    cls = type(self.sm) if self.sm is not None else getattr(self.mod, f"M_{sp['uid']}")
                    for nm, g in sp["guards"].items():      # attribute guards live on the class
                        if g["kind"] == "attr" and "sm" in g["providers"] and not hasattr(cls, nm):
                            setattr(cls, nm, True)
                    cls(bare)
                    got = "built"
                except InvalidDefinition:
                    got = "rejected"
                except Exception as err:  # noqa: BLE001
                    got = "raised " + type(err).__name__
        finally:
            side_effects = [e["cb"] for e in rec.log if e.get("k") == "cb_begin"][:4]
            rec.log = keep_log
        stored = getattr(bare, sp.get("state_field", "state"), None)
        rec.emit("note", what="incomplete-construct", expected="rejected" if missing else "built", got=got, missing=sorted(missing)[:5],
                 left_behind=(repr(stored)[:40] if stored is not None else None), callbacks_ran=side_effects)

    def op_become_clone(self, step):
        """The machine under test is replaced by its deepcopy / pickle round trip and the history goes on
        with the clone (own model and listener objects): a clone is a machine like any other."""
        import copy
        import pickle

        rec, sm = self.rec, self.sm
        if sm is None:
            return
        how = step.get("how", "deepcopy")
        # (property guards are read when callbacks are registered, also on the clone: the copy is taken
        # under a valuation in which no guard raises)
        keep_val = rec.val
        rec.val = {k: (True if v == "raise" else v) for k, v in dict(rec.val).items()}
        try:
            clone = copy.deepcopy(sm) if how == "deepcopy" else pickle.loads(pickle.dumps(sm))
        except Exception as err:  # noqa: BLE001
            rec.emit("note", what="clone-failed", how=how, exc=f"{type(err).__name__}: {err}"[:200])
            return
        finally:
            rec.val = keep_val
        objs = {"model": clone.model}
        for lst in list(getattr(clone, "_listeners", {})):
            nm = type(lst).__name__.split("_")[0].lower()
            if nm.startswith("l") and nm[1:].isdigit():
                objs[nm] = lst
        self.sm = clone
        self.objs = dict(self.objs, **objs)
        if getattr(self, "user_model", None) is not None:
            self.user_model = clone.model
        self.bound_target = None
        ids = {p: id(o) for p, o in self.objs.items() if o is not None}
        ids["sm"] = id(clone)
        ids["model"] = id(clone.model)
        rec.emit("step", op="rebind", phase="end", ids=ids, how=how)
        self._probe()
        return
        yield  # pragma: no cover

    def _clone(self, step):
        """deepcopy / pickle round trip of the main machine; the clone becomes the 'other' instance with
        its own recorded history (checked against the reference from the copy point)."""
        import copy
        import pickle

        rec, sm = self.rec, self.sm
        how = step.get("how", "deepcopy")
        sm.custom_attr = {"k": [1, 2], "n": len(rec.log)}
        sm._custom_private = ["retries", len(rec.log)]     # user state kept in a private attribute
        try:
            state_before = sm.current_state.id
        except Exception:  # noqa: BLE001
            state_before = None
        try:
            clone = copy.deepcopy(sm) if how == "deepcopy" else pickle.loads(pickle.dumps(sm))
        except Exception as err:  # noqa: BLE001
            rec.emit("note", what="clone-failed", how=how, exc=f"{type(err).__name__}: {err}"[:200])
            return
        objs = {"model": clone.model}
        for lst in list(getattr(clone, "_listeners", {})):
            nm = type(lst).__name__.split("_")[0].lower()
            if nm.startswith("l") and nm[1:].isdigit():
                objs[nm] = lst
        self.other, self.other_objs = clone, objs
        self.other_log = []
        problems = []
        if clone.model is sm.model:
            problems.append("clone.model is the original's model object")
        for p, o in objs.items():
            if p != "model" and o is self.objs.get(p):
                problems.append(f"listener {p} is shared between original and clone")
        for attr in ("allow_event_without_transition", "state_field", "start_value"):
            if getattr(clone, attr, "<missing>") != getattr(sm, attr, "<missing>"):
                problems.append(f"option {attr}: {getattr(clone, attr, '<missing>')!r} != {getattr(sm, attr, '<missing>')!r}")
        if getattr(clone, "custom_attr", None) != sm.custom_attr or getattr(clone, "custom_attr", None) is sm.custom_attr:
            problems.append("custom attribute not copied (or shared)")
        if getattr(clone, "_custom_private", None) != sm._custom_private or getattr(clone, "_custom_private", None) is sm._custom_private:
            problems.append("custom private attribute (_custom_private) not copied (or shared)")
        try:
            cstate = clone.current_state.id
        except Exception:  # noqa: BLE001
            cstate = None
        if cstate != state_before:
            problems.append(f"clone is in {cstate}, original in {state_before}")
        if getattr(clone.model, clone.state_field, None) != getattr(sm.model, sm.state_field, None):
            problems.append("model field differs after copy")
        rec.emit("note", what="clone", how=how, state=state_before, problems=problems)
        # the clone's own history starts here
        saved = self._swap_to_other()
        try:
            ids = {p: id(o) for p, o in self.objs.items() if o is not None}
            ids["sm"] = id(clone)
            active = sorted(step.get("active") or [])
            # (a clone of a not yet activated machine still starts in the original's start_value state)
            rec.emit("step", op="construct", phase="begin", val=dict(rec.val), stored=state_before,
                     start=getattr(self, "last_start", None) if state_before is None else None,
                     reuse=False, active=active, cloned=how)
            rec.emit("step", op="construct", phase="end", ids=ids, engine=type(clone._engine).__name__ if hasattr(clone, "_engine") else None)
            self._probe()
        finally:
            self._swap_back(saved)

    def _check_isolation(self, n0, act):
        rec = self.rec
        noise = self.other_log[n0:]
        mine = {id(o): p for p, o in self.objs.items() if o is not None}
        shared = id(self.objs[self.shared_provider]) if getattr(self, "shared_provider", None) else None
        for e in noise:
            if e["k"] != "cb_begin":
                continue
            if e.get("mid") == id(self.sm):
                rec.emit("note", what="instance-isolation", detail=f"callback {e['cb']} of the main instance ran during activity on another instance")
            elif e.get("sid") in mine and e.get("sid") != shared and e.get("sid") != id(self.sm):
                rec.emit("note", what="instance-isolation", detail=f"{mine[e['sid']]} of the main instance was invoked by another instance ({e['cb']})")
        rec.emit("note", what="other-activity", action=act, callbacks=sum(1 for e in noise if e["k"] == "cb_begin"))

    def _poke(self, cb_id, event):
        """Called from inside a callback of the main (sync) instance: send an event to the other,
        idle instance. It is an outermost call for that machine and must be processed at once."""
        if getattr(self, "other", None) is None or self.spec.get("any_async") or getattr(self, "_in_other", False):
            return None
        rec = self.rec
        n0 = len(self.other_log)
        saved = self._swap_to_other()
        try:
            self._one_step_gen(self._send({"op": "send", "event": event, "style": "send"}))
        finally:
            self._swap_back(saved)
        self._check_isolation(n0, "poke")
        return None

    def _other_define(self, step, standalone=False):
        """Definitions of OTHER classes while the main instance lives: an unrelated class with the same
        class and method names but other signatures / async bodies, a subclass adding transitions on
        inherited states, a definition that fails validation."""
        import re
        import sys
        import types

        from statemachine import State, StateMachine
        from statemachine.exceptions import InvalidDefinition

        act = step["action"]
        uid = self.spec["uid"]
        noise = []
        class _Noi:
            def run(self, *a, **k):
                noise.append(1)

            async def arun(self, *a, **k):
                noise.append(1)

            def guard(self, *a, **k):
                return True

            async def aguard(self, *a, **k):
                return True

            def validator(self, *a, **k):
                return None

        ns = {"State": State, "StateMachine": StateMachine, "NOISE": lambda *a, **k: noise.append(1), "NOI": _Noi()}
        if act == "define_same_name":
            src = self.source
            # machine class only (drop provider classes), same names, other signatures / async flipped
            start = src.index(f"class M_{uid}(")
            body = src[start:]
            head = src[:start] if standalone else ""
            variant = step.get("variant", 0)
            if variant == 0:
                body = re.sub(r"def (\w+)\(self, \*args, \*\*kwargs\):", r"def \1(self, args=None, *, kwargs=None):", body)
            elif variant == 1:
                body = re.sub(r"(?<!async )def (\w+)\(self, \*args, \*\*kwargs\):", r"async def \1(self, *args, **kwargs):", body)
            elif variant == 4:
                # same code size and shape, only the parameter kinds differ (positional arguments are lost)
                body = re.sub(r"def (\w+)\(self, \*args, \*\*kwargs\):", r"def \1(self, *, args=(), **kwargs):", body)
                body = body.replace("REC.", "NOI.")
            elif variant == 2:
                body = re.sub(r"def (\w+)\(self, \*args, \*\*kwargs\):", r"def \1(self, kwargs=None, *args):", body)
            else:
                # same positional parameters, different keyword-only parameters
                body = re.sub(r"def (\w+)\(self, \*args, \*\*kwargs\):", r"def \1(self, *, kwargs=None, args=None):", body)
            body = re.sub(r"return (await )?REC\.(a?run|a?guard|validator)\((.*)\)", r"return NOISE(1)", body)
            body = body.replace("return REC.guard(", "return True or (").replace("lambda *args, **kwargs: REC.run(", "lambda *args, **kwargs: NOISE(")
            modname = f"vmon_dyn_{uid}_x{len(getattr(self, 'extra_mods', []))}"
            mod = types.ModuleType(modname)
            mod.__dict__.update(ns)
            if self.mod is not None:
                # module-level helper objects the class body refers to (bound-method callbacks)
                mod.__dict__.update({k_: v_ for k_, v_ in self.mod.__dict__.items() if k_.startswith(("HB_", "Helper_"))})
            self.extra_mods = getattr(self, "extra_mods", []) + [modname]
            sys.modules[modname] = mod
            if standalone:
                from statemachine.mixins import MachineMixin
                from .rec import Recorder as _R

                scratch = _R()
                scratch.scripts = {cid: cb["script"] for cid, cb in self.spec["cbs"].items()}
                mod.__dict__.update({"REC": scratch, "MachineMixin": MachineMixin})
                body = head + body
            exec(compile(body, f"<{modname}>", "exec"), mod.__dict__)
            provs = render.provider_objects(self.spec, mod if standalone else self.mod)
            keep_log, self.rec.log = self.rec.log, []
            try:
                other = getattr(mod, f"M_{uid}")(provs["model"], allow_event_without_transition=True,
                                                  listeners=[provs[p] for p in self.spec["providers"] if p not in ("sm", "model")])
                for ev in step.get("events", []):
                    res = other.send(ev)
                    if inspect.isawaitable(res):
                        res.close()
            finally:
                self.rec.log = keep_log
            if step.get("drop"):
                import gc

                sys.modules.pop(modname, None)
                self.extra_mods.remove(modname)
                try:   # the class registry would keep the dropped class (and its code objects) alive
                    from statemachine import registry as _reg

                    dead = getattr(mod, f"M_{uid}")
                    for k_ in [k_ for k_, v_ in _reg._REGISTRY.items() if v_ is dead]:
                        del _reg._REGISTRY[k_]
                    del dead
                except Exception:  # noqa: BLE001
                    pass
                del other, provs, mod
                gc.collect()
        elif act == "subclass":
            cls = type(self.sm)
            st = [s for s in self.spec["states"] if not s["final"]]
            a, b = st[0]["id"], st[-1]["id"]
            src = (f"class Sub_{uid}(Base):\n    extra_state = State()\n"
                   f"    extra_event = Base.{a}.to(extra_state) | extra_state.to(Base.{b})\n")
            ns["Base"] = cls
            import warnings as _w
            with _w.catch_warnings():
                _w.simplefilter("ignore")
                exec(compile(src, "<subclass>", "exec"), ns)
        elif act == "states_named_like_attrs":
            # an unrelated class whose STATE IDS are the names the main machine resolves on itself
            # (guards, callbacks, validators provided by the machine class)
            sp = self.spec
            names = sorted({cb["name"] for cb in sp["cbs"].values() if cb["provider"] == "sm" and cb["kind"] == "method"}
                           | {n for n, g in sp["guards"].items() if "sm" in g["providers"]}
                           | {n for n, v in sp["validators"].items() if "sm" in v["providers"]})
            names = [n for n in names if n.isidentifier() and not n.startswith("__")][:6] or ["zz_only"]
            L = [f"class Unrelated_{uid}_{len(getattr(self, 'extra_mods', []))}(StateMachine):"]
            for k_, n in enumerate(names):
                L.append(f"    {n} = State(initial=True)" if k_ == 0 else f"    {n} = State()")
            chain = " | ".join(f"{a}.to({b})" for a, b in zip(names, names[1:] + names[:1]))
            L.append(f"    zz_next = {chain}")
            import warnings as _w
            with _w.catch_warnings():
                _w.simplefilter("ignore")
                exec(compile("\n".join(L) + "\n", "<unrelated>", "exec"), ns)
                inst = [v for k_, v in ns.items() if k_.startswith("Unrelated_")][0]()
                inst.send("zz_next")
        else:
            try:
                exec(compile("class Broken(StateMachine):\n    a = State()\n    b = State()\n    go = a.to(b)\n", "<invalid>", "exec"), ns)
            except InvalidDefinition:
                pass

    def op_write(self, step):
        """External writes: directly on the model, or through the low-level setters."""
        rec, sm = self.rec, self.sm
        if sm is None:
            return
        kind = step["kind"]
        value = eval(step["value_expr"], self.mod.__dict__) if "value_expr" in step else None  # noqa: S307
        if kind == "model_garbage" and value is None:
            kind = "csv"          # None in the model means "no state yet", not an unmapped value
        rec.emit("step", op="write", phase="begin", wkind=kind, target=step.get("target"))
        try:
            if kind == "model":
                setattr(sm.model, sm.state_field, value)
            elif kind == "csv":
                sm.current_state_value = value
            elif kind == "cs":
                sm.current_state = getattr(sm, step["target"])
            elif kind == "cs_foreign":
                from statemachine import State as _State

                foreign = _State("Foreign", value="zz_foreign_value")
                foreign._set_id("zz_foreign")
                sm.current_state = foreign
            elif kind == "model_garbage":
                # an unmapped value put into the model behind the machine's back: reading the state must
                # say so (never "no state is active"); the old value is restored afterwards
                fld = sm.state_field
                old = getattr(sm.model, fld, None)
                setattr(sm.model, fld, value)
                reads = {}
                try:
                    reads["is_active"] = [bool(getattr(sm, s.id).is_active) for s in sm.states]
                except Exception as err:  # noqa: BLE001
                    reads["is_active"] = type(err).__name__
                try:
                    reads["current_state"] = sm.current_state.id
                except Exception as err:  # noqa: BLE001
                    reads["current_state"] = type(err).__name__
                setattr(sm.model, fld, old)
                rec.emit("note", what="garbage-in-model", reads=reads, value=repr(value)[:40])
            elif kind == "cs_lookalike":
                from statemachine import State as _State

                real = getattr(sm, step["like"])
                fake = _State(real.name, value=("zz_lookalike", step["like"]))
                fake._set_id(real.id)
                sm.current_state = fake
            rec.emit("step", op="write", phase="end", wkind=kind, target=step.get("target"), valid=step.get("valid", True))
        except Exception as err:  # noqa: BLE001
            rec.emit("step", op="write", phase="end", wkind=kind, target=step.get("target"), valid=step.get("valid", True),
                     exc=type(err).__name__, exc_msg=str(err)[:150])
        self._probe()
        return
        yield  # pragma: no cover


def _patch_budget(rec, budget):
    """Bounded nested sends: each top-level step may cause at most `budget` nested sends, so that
    self-triggering machines terminate. The reference observes the sends that actually happen."""
    rec.send_budget = budget

    class _Scripts(dict):
        def get(self, key, default=None):  # noqa: A003
            if key not in self:
                return default
            script = dict.__getitem__(self, key)
            sends = script.get("sends")
            if not sends:
                return script
            take = []
            for s in sends:
                if rec.send_budget <= 0:
                    break
                rec.send_budget -= 1
                take.append(s)
            return dict(script, sends=take)

    rec.scripts = _Scripts(rec.scripts)


def run_and_check(scenario, fault=None, value_of=None, strict_args=True, prepare=None, send_budget=8):
    from .model import check_log

    run = Run(scenario, fault=fault, send_budget=send_budget)
    log = run.execute()
    rej, ck = check_log(scenario.spec, log, value_of=value_of, strict_args=strict_args, prepare=prepare)
    return run, log, rej, ck
