"""Reference binder for C07: two independent readings of "callbacks receive exactly the
parameters they declare"; a call shape is judged only where both readings agree.

Reading S (the property statement): parameters whose name is an available keyword/built-in take
it; the remaining positional parameters take the positional arguments in order; *args/**kwargs
take the leftovers.
Reading T (the repository's pinned alignment table, tests/test_signature.py): positional
arguments are aligned with positional parameters by position; a same-named keyword wins over the
aligned positional argument, which is dropped.
"""

from __future__ import annotations

PO, POK, VARPOS, KWO, VARKW = "po", "pok", "varpos", "kwo", "varkw"
DEFAULT = "<default>"


def _finish(params, named, varpos, varkw):
    missing = []
    for p in params:
        if p["kind"] in (VARPOS, VARKW):
            continue
        if p["name"] not in named:
            if p["default"]:
                named[p["name"]] = DEFAULT
            else:
                missing.append(p["name"])
    out = {"named": named}
    if any(p["kind"] == VARPOS for p in params):
        out["varpos"] = list(varpos)
    if any(p["kind"] == VARKW for p in params):
        out["varkw"] = dict(varkw)
    return ("missing", sorted(missing)) if missing else ("ok", out)


def bind_s(params, args, kwargs):
    named = {}
    by_name = {p["name"] for p in params if p["kind"] in (POK, KWO) and p["name"] in kwargs}
    for n in by_name:
        named[n] = kwargs[n]
    rest = list(args)
    for p in params:
        if p["kind"] in (PO, POK) and p["name"] not in by_name and rest:
            named[p["name"]] = rest.pop(0)
    varkw = {k: v for k, v in kwargs.items() if k not in by_name}
    return _finish(params, named, rest, varkw)


def bind_t(params, args, kwargs):
    named = {}
    kw = dict(kwargs)
    rest = list(args)
    varpos = []
    idx = 0
    positional = [p for p in params if p["kind"] in (PO, POK)]
    has_varpos = any(p["kind"] == VARPOS for p in params)
    while rest:
        if idx < len(positional):
            p = positional[idx]
            idx += 1
            a = rest.pop(0)
            if p["kind"] == POK and p["name"] in kw:
                named[p["name"]] = kw.pop(p["name"])
            else:
                named[p["name"]] = a
        else:
            if has_varpos:
                varpos = rest
            rest = []
    for p in params:
        if p["kind"] in (POK, KWO) and p["name"] not in named and p["name"] in kw:
            named[p["name"]] = kw.pop(p["name"])
    return _finish(params, named, varpos, kw)


def verdict(params, args, kwargs):
    """-> ('bind', binding) | ('may-raise', missing) | ('undecided', why)"""
    npos = 0
    for p in params:
        if p["kind"] in (PO, POK):
            if p["kind"] == PO and p["name"] in kwargs and npos >= len(args):
                # no positional argument reaches it: the library raises / binds by name here
                return ("undecided", "positional-only parameter named like an available keyword gets no positional argument")
            npos += 1
    s = bind_s(params, args, kwargs)
    t = bind_t(params, args, kwargs)
    if s != t:
        return ("undecided", "readings S and T differ")
    if s[0] == "missing":
        return ("may-raise", s[1])
    return ("bind", s[1])


def signature_source(params):
    """Python parameter list text for a generated signature. Defaults are named sentinels."""
    parts = []
    seen_po = False
    kinds = [p["kind"] for p in params]
    for i, p in enumerate(params):
        k = p["kind"]
        if k == PO:
            parts.append(p["name"] + (f"=DEF_{p['name']}" if p["default"] else ""))
            seen_po = True
            if i + 1 == len(params) or kinds[i + 1] != PO:
                parts.append("/")
        elif k == POK:
            parts.append(p["name"] + (f"=DEF_{p['name']}" if p["default"] else ""))
        elif k == VARPOS:
            parts.append("*" + p["name"])
        elif k == KWO:
            if VARPOS not in kinds and (i == 0 or kinds[i - 1] != KWO):
                parts.append("*")
            parts.append(p["name"] + (f"=DEF_{p['name']}" if p["default"] else ""))
        elif k == VARKW:
            parts.append("**" + p["name"])
    return ", ".join(parts)
