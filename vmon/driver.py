"""Check driver: shards a property's workload over worker subprocesses, merges what the
monitors observed, classifies violations against known_findings.json, writes evidence.

Exit codes: 0 held on everything explored, 1 violation (VIOLATION line), 2 inconclusive.
"""

from __future__ import annotations

import hashlib
import importlib
import json
import os
import subprocess
import sys
import time
from concurrent.futures import ThreadPoolExecutor

ROOT = os.path.dirname(os.path.dirname(os.path.abspath(__file__)))
PY = "/venv/bin/python"
GUARD = "PYSM_VERIF"


def repo_path() -> str:
    return os.environ.get("VERIF_REPO", "/repo")


def seed_from_env() -> int:
    try:
        return int(os.environ.get("VERIF_SEED", "0"))
    except ValueError:
        return 0


def ensure_deps():
    """icontract lives in /verif/.deps (git-ignored): install it from the offline wheelhouse when
    absent (restores keep only committed files)."""
    deps = os.path.join(ROOT, ".deps")
    if os.path.isdir(os.path.join(deps, "icontract")):
        return deps
    os.makedirs(deps, exist_ok=True)
    lock = os.path.join(deps, ".lock")
    import fcntl

    with open(lock, "w") as fh:
        fcntl.flock(fh, fcntl.LOCK_EX)
        if not os.path.isdir(os.path.join(deps, "icontract")):
            subprocess.run(
                [
                    PY, "-m", "pip", "install", "-q", "--no-index", "--find-links",
                    "/opt/veriftools/wheels", "--target", deps, "icontract", "jsonschema",
                ],
                stdout=subprocess.DEVNULL,
                stderr=subprocess.DEVNULL,
                check=False,
            )
    return deps


def worker_env(seed: int) -> dict:
    env = dict(os.environ)
    env[GUARD] = "1"
    env["PYTHONHASHSEED"] = "0"
    env["VERIF_SEED"] = str(seed)
    env["VERIF_REPO"] = repo_path()
    deps = os.path.join(ROOT, ".deps")
    env["PYTHONPATH"] = os.pathsep.join([repo_path(), ROOT, deps])
    env["PYTHONDONTWRITEBYTECODE"] = "1"
    env.pop("PYTHONASYNCIODEBUG", None)
    return env


def load_prop(prop_id: str):
    return importlib.import_module("props." + prop_id.lower())


def load_known():
    path = os.path.join(ROOT, "known_findings.json")
    if not os.path.exists(path):
        return {"findings": [], "fixed": []}
    with open(path) as fh:
        return json.load(fh)


def _run_one(prop_id: str, desc: dict, seed: int, timeout: float, workdir: str, idx: int):
    out = os.path.join(workdir, f"{prop_id}-{idx}.json")
    if os.path.exists(out):
        os.unlink(out)
    cmd = [PY, "-X", "faulthandler", "-m", "vmon.worker", prop_id, json.dumps(desc), out]
    t0 = time.time()
    proc = subprocess.Popen(cmd, cwd=ROOT, env=worker_env(seed), stdout=subprocess.PIPE, stderr=subprocess.PIPE, text=True)
    _CHILDREN.add(proc)
    try:
        out_s, err_s = proc.communicate(timeout=timeout)
    except subprocess.TimeoutExpired:
        proc.kill()
        proc.communicate()
        _CHILDREN.discard(proc)
        return {"_status": "timeout", "_desc": desc, "_wall": time.time() - t0}
    _CHILDREN.discard(proc)
    cp = subprocess.CompletedProcess(cmd, proc.returncode, out_s, err_s)
    if cp.returncode != 0 or not os.path.exists(out):
        return {
            "_status": "died", "_desc": desc, "_rc": cp.returncode,
            "_stderr": (cp.stderr or "")[-4000:], "_wall": time.time() - t0,
        }
    with open(out) as fh:
        res = json.load(fh)
    os.unlink(out)
    res["_status"] = "ok"
    res["_wall"] = time.time() - t0
    res["_stderr_tail"] = (cp.stderr or "")[-500:]
    return res


_CHILDREN = set()


def _install_signal_cleanup():
    import signal

    def handler(signum, frame):
        for p in list(_CHILDREN):
            try:
                p.kill()
            except Exception:  # noqa: BLE001
                pass
        os._exit(2)

    for sig in (signal.SIGTERM, signal.SIGINT):
        try:
            signal.signal(sig, handler)
        except Exception:  # noqa: BLE001
            pass


def mech_hash(obj) -> str:
    return hashlib.sha1(json.dumps(obj, sort_keys=True, default=str).encode()).hexdigest()[:10]


def run_check(prop_id: str, tier: str, jobs: int = 16) -> int:
    prop_id = prop_id.upper()
    seed = seed_from_env()
    t0 = time.time()
    _install_signal_cleanup()
    ensure_deps()
    sys.path.insert(0, ROOT)
    mod = load_prop(prop_id)
    meta = mod.META
    shards = mod.plan(tier, seed)
    timeout = float(meta.get("shard_timeout", {}).get(tier, 900))
    workdir = os.path.join(ROOT, ".work", f"{prop_id}-{os.getpid()}")
    os.makedirs(workdir, exist_ok=True)
    os.makedirs(os.path.join(ROOT, "evidence"), exist_ok=True)
    os.makedirs(os.path.join(ROOT, "replays"), exist_ok=True)

    with ThreadPoolExecutor(max_workers=jobs) as ex:
        futs = [
            ex.submit(_run_one, prop_id, d, seed, timeout, workdir, i)
            for i, d in enumerate(shards)
        ]
        results = [f.result() for f in futs]

    evaluations = 0
    signatures = set()
    samples = []
    counters: dict = {}
    violations = []
    inconclusive = []
    exhaustive_flags = []
    for r in results:
        if r["_status"] != "ok":
            inconclusive.append(
                f"worker {r['_status']} on shard {json.dumps(r['_desc'])[:200]}"
                + (f" rc={r.get('_rc')} stderr={r.get('_stderr', '')[-600:]}" if r["_status"] == "died" else "")
            )
            continue
        evaluations += int(r.get("evaluations", 0))
        signatures.update(r.get("signatures", []))
        for s in r.get("samples", []):
            if len(samples) < int(meta.get("max_samples", 6)):
                samples.append(s)
        for k, v in r.get("counters", {}).items():
            if isinstance(v, (int, float)):
                counters[k] = counters.get(k, 0) + v
            elif isinstance(v, list):
                cur = counters.setdefault(k, [])
                for item in v:
                    if item not in cur:
                        cur.append(item)
            else:
                counters[k] = v
        violations.extend(r.get("violations", []))
        inconclusive.extend(r.get("inconclusive", []))
        if "exhaustive" in r:
            exhaustive_flags.append(bool(r["exhaustive"]))

    try:
        os.rmdir(workdir)
    except OSError:
        pass
    if hasattr(mod, "finalize"):
        extra = mod.finalize(tier, seed, results, counters) or {}
        inconclusive.extend(extra.get("inconclusive", []))
        violations.extend(extra.get("violations", []))

    # --- classify violations ------------------------------------------------------------
    known = load_known()
    known_by_key = {
        (k["property"], k["mechanism"]): k for k in known.get("findings", [])
    }
    known_hits: dict = {}
    new_by_mech: dict = {}
    for v in violations:
        key = (prop_id, v.get("mechanism", "unclassified"))
        if key in known_by_key:
            known_hits.setdefault(key, []).append(v)
        else:
            new_by_mech.setdefault(v.get("mechanism", "unclassified"), []).append(v)

    lines = []
    for key, vs in sorted(known_hits.items()):
        k = known_by_key[key]
        lines.append(f"KNOWN-FINDING: property={prop_id} {k['mechanism']}: {k['what']} (hits={len(vs)})")
    replay_paths = []
    for mech, vs in sorted(new_by_mech.items()):
        v = min(vs, key=lambda x: len(json.dumps(x, default=str)))
        path = os.path.join(ROOT, "replays", f"{prop_id}-{mech}-{mech_hash(v)}.json".replace("/", "_"))
        with open(path, "w") as fh:
            json.dump({"property": prop_id, "tier": tier, "seed": seed, **v}, fh, indent=1, default=str)
        replay_paths.append(path)
        lines.append(f"VIOLATION property={prop_id} replay={path}")
        lines.append(f"  mechanism={mech} count={len(vs)} rule={v.get('rule')} detail={str(v.get('detail'))[:600]}")

    # --- inconclusive: deciding monitors never reached ---------------------------------------
    for need in meta.get("must_observe", []):
        if not counters.get(need):
            inconclusive.append(f"deciding counter '{need}' is zero")
    if evaluations == 0:
        inconclusive.append("no evaluations")

    wall = time.time() - t0
    level = meta["level"]
    coverage = {
        "evaluations": evaluations,
        "distinct_nontrivial": len(signatures),
        "rule": meta["rule"],
        "samples": samples,
        "counters": counters,
        "known_finding_hits": {k[1]: len(v) for k, v in known_hits.items()},
        "shards": len(shards),
        "inconclusive_reasons": inconclusive[:20],
    }
    if exhaustive_flags and all(exhaustive_flags) and not inconclusive:
        coverage["exhaustive"] = True
    if "explanation" in meta:
        coverage["explanation"] = meta["explanation"]
    evidence = {
        "property_id": prop_id,
        "tier": tier,
        "seed": seed,
        "level": level,
        "coverage": coverage,
        "assumptions": meta.get("assumptions", []),
        "wall_s": round(wall, 2),
        "violations": len(new_by_mech),
    }
    ev_path = os.path.join(ROOT, "evidence", f"{prop_id}.json")
    with open(ev_path, "w") as fh:
        json.dump(evidence, fh, indent=1, default=str)
    _validate_evidence(ev_path)

    for ln in lines:
        print(ln)
    verdict = "violated" if new_by_mech else ("inconclusive" if inconclusive else "held")
    print(
        f"[{prop_id}] tier={tier} seed={seed} verdict={verdict} evaluations={evaluations} "
        f"distinct_nontrivial={len(signatures)} wall={wall:.1f}s"
    )
    brief = {k: v for k, v in counters.items() if isinstance(v, (int, float))}
    print(f"[{prop_id}] observed: {json.dumps(brief, sort_keys=True)[:1500]}")
    if new_by_mech:
        return 1
    if inconclusive:
        for reason in inconclusive[:10]:
            print(f"INCONCLUSIVE property={prop_id} reason={reason[:800]}")
        return 2
    return 0


def _validate_evidence(path: str):
    try:
        sys.path.insert(0, os.path.join(ROOT, ".deps"))
        import jsonschema  # type: ignore
    except Exception:
        return
    try:
        with open(os.path.join(ROOT, "schemas", "EVIDENCE.schema.json")) as fh:
            schema = json.load(fh)
        with open(path) as fh:
            doc = json.load(fh)
        jsonschema.validate(doc, schema)
    except jsonschema.ValidationError as err:  # type: ignore[attr-defined]
        print(f"[evidence] WARNING schema validation failed: {err.message}")
    except Exception as err:  # pragma: no cover
        print(f"[evidence] WARNING could not validate: {err!r}")


def run_replay(prop_id: str, path: str) -> int:
    prop_id = prop_id.upper()
    ensure_deps()
    with open(path) as fh:
        witness = json.load(fh)
    desc = {"replay": witness}
    wd = os.path.join(ROOT, ".work", f"replay-{os.getpid()}")
    os.makedirs(wd, exist_ok=True)
    res = _run_one(prop_id, desc, int(witness.get("seed", 0)), 600, wd, 9999)
    if res["_status"] != "ok":
        print(f"INCONCLUSIVE property={prop_id} reason=replay worker {res['_status']} {res.get('_stderr', '')[-800:]}")
        return 2
    vs = res.get("violations", [])
    for v in vs:
        print(f"VIOLATION property={prop_id} replay={path}")
        print(f"  mechanism={v.get('mechanism')} rule={v.get('rule')} detail={str(v.get('detail'))[:1500]}")
    if not vs:
        print(f"[{prop_id}] replay: no violation reproduced")
    return 1 if vs else 0
