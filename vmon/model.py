"""Reference interpreter of the *declared* machine + online trace checker.

Never imports ``statemachine``. Consumes the recorder's log event by event, keeps the reference
configuration (state, queue, current event context) and rejects the first event that no
reference step allows; every rejection names the rule (and thereby the property) that failed.

Permissive where the documentation is: any order inside one callback group (multiset), any
evaluation order / short-circuit among the guards of one candidate, siblings of a failing
callback in the failing group are masked (H4).
"""

from __future__ import annotations

import json
from collections import deque

from .rec import expected_ret_repr

T_GROUPS = ("before", "on", "after")


class Reject(Exception):
    def __init__(self, rule, detail, n=None, flags=None):
        super().__init__(f"{rule}: {detail}")
        self.rule = rule
        self.detail = detail
        self.n = n
        self.flags = flags or {}


class Ctx:
    def __init__(self, tok, event, args=None, ukw=None, nested_in=None):
        self.tok = tok
        self.event = event
        self.args = args
        self.ukw = ukw
        self.nested_in = nested_in
        self.initial = event == "__initial__"
        self.cands = []
        self.ci = 0
        self.phase = None       # validators|cond|before|exit|on|enter|after|done
        self.pending = set()
        self.open = set()
        self.seen_guards = set()
        self.seen_validators = set()
        self.t = None           # chosen transition (dict) once enabled
        self.rets = {"before": {}, "on": {}}
        self.executed = False
        self.result = None      # expected result repr after completion
        self.failing = None     # (exc type name, phase, excid)
        self.fail_phase_set = set()
        self.src_state = None
        self.assigned = False
        self.validator_raising = None
        self.outcome = None     # 'executed' | 'ignored' | 'not-allowed' | 'validator' | 'fault'
        self.nested_seen = 0


class Checker:
    def __init__(self, spec, value_of=None, strict_args=True):
        self.spec = spec
        self.rtc = spec["opts"]["rtc"]
        self.allow = spec["opts"]["allow"]
        self.cbs = spec["cbs"]
        self.active = set(spec["providers"]) | {"sm"}
        self.trans_from = {}
        for t in spec["transitions"]:
            self.trans_from.setdefault(t["src"], []).append(t)
        self.state = None
        self.queue = deque()
        self.stack = []          # ctx stack (rtc: <=1)
        self.draining = False
        self.drain_tok = None
        self.first_result = ("unset",)
        self.pending_returns = {}   # tok -> expected ('none',) | ('ctx', ctx) | ('drain',)
        self.dropped = set()
        self.failed_ctx = []     # ctx with masked siblings
        self.val = {}
        self.after_failure = False
        self.sends = {}          # tok -> send_call record
        self.stats = {"events_executed": 0, "not_allowed": 0, "ignored": 0, "validator_aborts": 0,
                      "faults": 0, "cb_checked": 0, "guards_seen": 0, "phases_closed": 0,
                      "contested_nonfirst": 0, "masked_siblings": 0, "queued_max": 0, "results_checked": 0,
                      "initial_activations": 0, "dropped_tokens": 0, "nested_sends": 0}
        self.value_of = value_of or (lambda sid: sid)
        self.phase_bitmaps = set()
        self.initial_override = None   # start_value state id
        self.last_exc = None
        self.strict_args = strict_args
        self.cur_n = None

    # ------------------------------------------------------------------ expected sets
    role = "main"

    shared_provider = None    # a listener object of the main instance also attached to the other one

    def _prov_ok(self, cb):
        role = "main" if cb["provider"] == self.shared_provider else self.role
        return cb["provider"] in self.active and cb.get("inst") in (None, role)

    def tset(self, t, group, trigger):
        out = set()
        for cid, cb in self.cbs.items():
            if not self._prov_ok(cb):
                continue
            if cb["kind"] == "method":
                nm = cb["name"]
                if nm == f"{group}_transition":
                    out.add(cid)
                elif trigger in t["events"] and nm == f"{group}_{trigger}":
                    out.add(cid)
            elif cb["kind"] == "deco":
                d = cb["deco"]
                if d["target"] == "event" and d["group"] == group and d["event"] in t["events"]:
                    out.add(cid)
        for ref in t["refs"][group]:
            if ref["by"] == "name":
                out |= {cid for cid, cb in self.cbs.items() if cb["name"] == ref["name"] and self._prov_ok(cb)}
            else:
                out.add(ref["cb"])
        return out

    def sset(self, sid, group):
        out = set()
        for cid, cb in self.cbs.items():
            if not self._prov_ok(cb):
                continue
            if cb["kind"] == "method":
                if cb["name"] in (f"on_{group}_state", f"on_{group}_{sid}"):
                    out.add(cid)
            elif cb["kind"] == "deco":
                d = cb["deco"]
                if d["target"] == "state" and d["group"] == group and d["state"] == sid:
                    out.add(cid)
        for ref in self.spec["state_refs"].get(sid, {}).get(group, []):
            if ref["by"] == "name":
                out |= {cid for cid, cb in self.cbs.items() if cb["name"] == ref["name"] and self._prov_ok(cb)}
            else:
                out.add(ref["cb"])
        return out

    def guard_ids(self, t):
        out = set()
        for g in t["guards"]:
            for p in self.spec["guards"][g["name"]]["providers"]:
                if p in self.active:
                    out.add(f"{g['name']}@{p}")
        return out

    def validator_ids(self, t):
        out = set()
        for v in t["validators"]:
            for p in self.spec["validators"][v]["providers"]:
                if p in self.active:
                    out.add(f"{v}@{p}")
        return out

    def enabled(self, t):
        for g in t["guards"]:
            v = self.val.get(g["name"], True)
            if isinstance(v, dict) and "by_target" in v:    # the guard's answer depends on the candidate's target
                v = v["by_target"].get(t["dst"], True)
            if isinstance(v, dict):   # per-provider valuation (C12)
                vs = [bool(v[p]) for p in self.spec["guards"][g["name"]]["providers"] if p in self.active and p in v]
                truth = all(vs)
                if g["kind"] == "unless":
                    # every provider's value must be falsy
                    if any(vs):
                        return False
                    continue
                if not truth:
                    return False
                continue
            if g["kind"] == "cond" and not v:
                return False
            if g["kind"] == "unless" and v:
                return False
        return True

    def raising_validators(self, t):
        """ids (name@provider) of the validators of t that raise under the current valuation."""
        out = set()
        for v in t["validators"]:
            val = self.val.get(v)
            for p in self.spec["validators"][v]["providers"]:
                if p not in self.active:
                    continue
                pv = val.get(p) if isinstance(val, dict) else val
                if pv == "raise":
                    out.add(f"{v}@{p}")
        return out

    def allowed_events(self, sid):
        seen = []
        for t in self.trans_from.get(sid, []):
            for e in t["events"]:
                if e not in seen:
                    seen.append(e)
        return seen

    # ------------------------------------------------------------------ helpers
    def rej(self, rule, detail):
        raise Reject(rule, detail, n=self.cur_n, flags=self._flags())

    def _flags(self):
        return {
            "after_failure": self.after_failure,
            "in_initial": bool(self.stack and self.stack[-1].initial) or self.last_op in ("construct", "activate"),
            # a callback of this step sent an event: order / results across events are C03's concern too
            "nested_in_step": bool(getattr(self, "step_nested", False)),
        }

    def soft(self, rule, detail):
        """A deviation after which the reference stays aligned: recorded, checking continues."""
        if not hasattr(self, "softs"):
            self.softs = []
        if len(self.softs) < 50:
            self.softs.append((rule, detail, self.cur_n))
            self.__dict__.setdefault("soft_flags", []).append(self._flags())

    def _leave_candidate(self, ctx, why):
        """The implementation moved past the current candidate without executing it."""
        t = ctx.cands[ctx.ci]
        raising = self.raising_validators(t)
        if raising:
            if bool(ctx.seen_validators & raising):
                self.rej("C01.validator-aborts", f"{why} although validator {raising} of candidate t{t['i']} raised")
            self.rej("C01.validator-aborts", f"{why} although validator {raising} of candidate t{t['i']} raises (it was never evaluated)")
        if self.enabled(t):
            self.rej("C01.selection", f"{why} although candidate t{t['i']} ({t['src']}->{t['dst']}) is enabled")
        if self.validator_ids(t) - ctx.seen_validators:
            self.soft("C02.exactly-once", f"validators {sorted(self.validator_ids(t) - ctx.seen_validators)} of rejected candidate t{t['i']} were skipped")
        self._next_candidate(ctx)

    @property
    def ctx(self):
        return self.stack[-1] if self.stack else None

    def initial_state_id(self):
        if self.initial_override is not None:
            return self.initial_override
        return next(s["id"] for s in self.spec["states"] if s["initial"])

    # ------------------------------------------------------------------ context lifecycle
    def start_ctx(self, item):
        ctx = Ctx(item["tok"], item["event"], item.get("args"), item.get("ukw"), item.get("nested_in"))
        ctx.src_state = self.state
        self.stack.append(ctx)
        if ctx.initial:
            tgt = self.initial_state_id()
            ctx.t = {"src": "", "dst": tgt, "events": ["__initial__"], "internal": False, "i": -1,
                     "refs": {g: [] for g in T_GROUPS}, "guards": [], "validators": []}
            ctx.phase = "on"      # next phase after 'on' is assignment + enter
            ctx.pending = set()
            self.stats["initial_activations"] += 1
            return ctx
        if self.state is None:
            # event before activation: the library raises InvalidStateValue (sync cannot get here)
            ctx.cands = []
        else:
            ctx.cands = [t for t in self.trans_from.get(self.state, []) if ctx.event in t["events"]]
        ctx.ci = -1
        self._next_candidate(ctx)
        return ctx

    def _next_candidate(self, ctx):
        ctx.ci += 1
        ctx.seen_guards = set()
        ctx.seen_validators = set()
        if ctx.ci >= len(ctx.cands):
            ctx.phase = "none-left"
            ctx.pending = set()
            return
        t = ctx.cands[ctx.ci]
        ctx.phase = "validators"
        ctx.pending = set()   # validators tracked in seen_validators

    def _finish_no_transition(self, ctx):
        if self.allow:
            ctx.outcome = "ignored"
            ctx.result = {"v": None, "t": "NoneType"}
            self.stats["ignored"] += 1
            self._complete(ctx)
        else:
            ctx.outcome = "not-allowed"
            self.stats["not_allowed"] += 1
            ctx.failing = ("TransitionNotAllowed", "selection", None)
            self._fail_lands_if_sync(ctx)

    def _fail_lands_if_sync(self, ctx):
        # the failure becomes visible at the enclosing send_return / cb_end; nothing to do here
        pass

    def _enter_phase(self, ctx, phase):
        t = ctx.t
        ctx.phase = phase
        if phase == "before":
            ctx.pending = self.tset(t, "before", ctx.event)
        elif phase == "exit":
            ctx.pending = set() if (t["internal"] or ctx.initial) else self.sset(t["src"], "exit")
        elif phase == "on":
            ctx.pending = self.tset(t, "on", ctx.event)
        elif phase == "enter":
            ctx.pending = set() if t["internal"] else self.sset(t["dst"], "enter")
        elif phase == "after":
            ctx.pending = set() if ctx.initial else self.tset(t, "after", ctx.event)
        ctx.phase_sets = getattr(ctx, "phase_sets", {})
        ctx.phase_sets[phase] = set(ctx.pending)

    NEXT = {"before": "exit", "exit": "on", "on": "enter", "enter": "after", "after": "done"}

    def _phase_complete(self, ctx):
        return not ctx.pending and not ctx.open

    def _advance(self, ctx):
        """Move to the next phase; caller guarantees the current one is complete. Returns False
        when the context is finished (completed or failing)."""
        ph = ctx.phase
        if ph == "validators":
            t = ctx.cands[ctx.ci]
            raising = self.raising_validators(t)
            need = self.validator_ids(t)
            if raising:
                if not bool(ctx.seen_validators & raising):
                    self.rej("C01.validator-aborts", f"validator {raising} should raise for candidate t{t['i']} but was not evaluated")
                ctx.failing = ("ValidatorError", "validators", None)
                ctx.outcome = "validator"
                self.stats["validator_aborts"] += 1
                return False
            if need - ctx.seen_validators:
                self.soft("C02.exactly-once", f"validators {sorted(need - ctx.seen_validators)} of candidate t{t['i']} not run")
            ctx.phase = "cond"
            return True
        if ph == "cond":
            t = ctx.cands[ctx.ci]
            if self.enabled(t):
                missing = self.guard_ids(t) - ctx.seen_guards
                missing = {g for g in missing if self.spec["guards"][g.split("@")[0]]["kind"] != "attr"}
                ctx.t = t
                if ctx.ci > 0:
                    self.stats["contested_nonfirst"] += 1
                self._enter_phase(ctx, "before")
            else:
                self._next_candidate(ctx)
            return True
        if ph == "none-left":
            self._finish_no_transition(ctx)
            return False
        if ph in self.NEXT:
            self.stats["phases_closed"] += 1
            nxt = self.NEXT[ph]
            if ph == "on":
                # single assignment between on and enter
                self.state = ctx.t["dst"]
                ctx.assigned = True
            if nxt == "done":
                ctx.executed = not ctx.initial
                ctx.outcome = "executed"
                vals = [expected_ret_repr(code, cid) for cid, code in ctx.rets["before"].items()]
                vals += [expected_ret_repr(code, cid) for cid, code in ctx.rets["on"].items()]
                ctx.nbefore = len(ctx.rets["before"])
                ctx.result_parts = (
                    [expected_ret_repr(code, cid) for cid, code in ctx.rets["before"].items()],
                    [expected_ret_repr(code, cid) for cid, code in ctx.rets["on"].items()],
                )
                if not ctx.initial:
                    self.stats["events_executed"] += 1
                    sets = getattr(ctx, "phase_sets", {})
                    bitmap = tuple(bool(sets.get(p)) for p in ("before", "exit", "on", "enter", "after"))
                    kind = "internal" if ctx.t["internal"] else ("self" if ctx.t["src"] == ctx.t["dst"] else "external")
                    provs = tuple(sorted({self.cbs[c]["provider"] for s in sets.values() for c in s}))
                    self.phase_bitmaps.add((kind, bitmap, provs, len(ctx.t["events"]) > 1))
                self._complete(ctx)
                return False
            self._enter_phase(ctx, nxt)
            return True
        self.rej("internal", f"cannot advance from phase {ph}")

    def _complete(self, ctx):
        ctx.phase = "done"
        ctx.done = True

    # run epsilon moves while the current phase has nothing left to observe
    def _settle(self, ctx, force_cond=False):
        while ctx.phase not in ("done",) and not ctx.failing:
            if ctx.phase == "validators":
                t = ctx.cands[ctx.ci]
                need = self.validator_ids(t)
                raising = self.raising_validators(t)
                if raising:
                    if bool(ctx.seen_validators & raising) or force_cond:
                        # forced: the call returned, so the raising validator was never evaluated
                        self._advance(ctx)
                    return
                if need - ctx.seen_validators and not force_cond:
                    return
                self._advance(ctx)
            elif ctx.phase == "cond":
                if not force_cond:
                    return
                self._advance(ctx)
            elif ctx.phase == "none-left":
                self._advance(ctx)
                return
            else:
                if not self._phase_complete(ctx):
                    return
                if not self._advance(ctx):
                    return

    # ------------------------------------------------------------------ drain control (rtc)
    def _finish_ctx_rtc(self):
        """Current ctx is done or failing, rtc mode: pop it and continue with the queue."""
        ctx = self.stack.pop()
        if ctx.failing:
            self.drain_failing = ctx
            return
        if not ctx.initial:
            self.drain_events = getattr(self, "drain_events", 0) + 1
        if not ctx.initial and self.first_result == ("unset",):
            self.first_result = ("res", ctx)
        if self.queue:
            item = self.queue.popleft()
            self.start_ctx(item)
        else:
            self.drain_done = True

    def _drive_rtc(self, until_tok=None, to_end=False):
        """Advance the reference as far as possible without new observations.
        until_tok: stop once a context for that token is current (and not yet begun)."""
        spins = 0
        while True:
            spins += 1
            if spins > 100000:
                self.rej("internal", "reference interpreter does not terminate (drive)")
            if getattr(self, "drain_failing", None) is not None or getattr(self, "drain_done", False):
                return
            ctx = self.ctx
            if ctx is None:
                return
            if until_tok is not None and ctx.tok == until_tok:
                return
            self._settle(ctx, force_cond=True)
            if ctx.phase == "done" or ctx.failing:
                self._finish_ctx_rtc()
                continue
            if to_end or until_tok is not None:
                # stuck with pending observations
                what = sorted(ctx.pending) or sorted(ctx.open)
                if ctx.open:
                    self.rej("C03.no-interleave", f"event {ctx.event}/{ctx.tok} still has open callbacks {sorted(ctx.open)} in phase {ctx.phase}")
                if not what:
                    self.rej("internal", f"reference cannot progress in phase {ctx.phase} of {ctx.event}/{ctx.tok}")
                self._missing(ctx, what)
                continue
            return

    def _missing(self, ctx, what):
        """Declared callbacks of the current phase never ran. The reference stays aligned when they
        are simply absent (soft, C02); it is an ordering violation when they run later."""
        msg = f"callbacks {what} of phase '{ctx.phase}' of event {ctx.event}/{ctx.tok} (t{ctx.t['i'] if ctx.t else '?'}) did not run before the next step"
        if self._begins_later(ctx):
            self.rej("C02.order", msg + " (they run later)")
        self.soft("C02.exactly-once", msg)
        if ctx.phase in ("before", "on") and not ctx.initial:
            for cid in sorted(ctx.pending):
                ctx.rets[ctx.phase][cid] = self.cbs[cid]["script"].get("ret", "none")
        ctx.pending = set()

    # ------------------------------------------------------------------ event consumption
    def feed(self, ev):
        self.cur_n = ev.get("n")
        k = ev["k"]
        getattr(self, "on_" + k)(ev)

    def on_step(self, ev):
        op = ev["op"]
        if ev["phase"] == "begin":
            if op != "probe":
                self.last_op = op
                self.step_had_write = False
                self.step_nested = False
            if op == "construct":
                self.ids = None
                self.constructed_over_stored = ev.get("stored") is not None
            if "val" in ev and ev["val"] is not None:
                self.val = ev["val"]
            self.quiet_step = None
            if op == "construct":
                self.expect_construct = True
                self.queue.clear()
                self.stack = []
                # the token `__initial__` is reused by every construction: a failed activation of the
                # previous machine must not mask the callbacks of this one
                self.failed_ctx = [f for f in self.failed_ctx if f.tok != "__initial__"]
                self.masked_open = {(t_, c) for (t_, c) in getattr(self, "masked_open", set()) if t_ != "__initial__"}
                self.propagating = None
                self.drain_failing = None
                if ev.get("active"):
                    self.active = set(ev["active"]) | {"sm"}
                if ev.get("reuse") and self.state is not None:
                    self.quiet_step = "C11.resume-untouched"
                    self.constructed_over_stored = True
                    self.stats["restarts"] = self.stats.get("restarts", 0) + 1
                elif ev.get("stored") is not None:
                    self.state = ev["stored"]
                    self.quiet_step = "C11.resume-untouched"
                    self.stats["resumes"] = self.stats.get("resumes", 0) + 1
                else:
                    self.state = None
                    self.initial_override = ev.get("start")
                    if not self.spec.get("any_async"):
                        self._begin_drain("__construct__", {"tok": "__initial__", "event": "__initial__"})
            elif op == "activate":
                if self.state is None:
                    self._begin_drain("__activate__", {"tok": "__initial__", "event": "__initial__"})
                else:
                    self.quiet_step = "C11.reactivation-noop"
            elif op == "add_listener":
                pass
        else:
            if op == "activate" and ev.get("awaitable") is False:
                self.rej("C11.reactivation-noop", "activate_initial_state() of a machine with coroutine callbacks, called inside a running loop, "
                                                  "returned something that cannot be awaited")
            if op in ("construct", "activate"):
                quiet = self.quiet_step
                self.quiet_step = None
                exc = {"type": ev["exc"], "msg": ev.get("exc_msg")} if ev.get("exc") else None
                if quiet and exc is not None:
                    self.rej(quiet, f"{op} raised {ev.get('exc')}: {ev.get('exc_msg')}")
                if self.draining:
                    self._end_drain(ev, exc=exc)
                elif exc is not None:
                    self.rej(f"{op}.raised", f"{op} raised {ev.get('exc')}: {ev.get('exc_msg')}")
            if op == "construct" and ev.get("ids"):
                self.ids = ev["ids"]
            if op == "rebind":
                self.ids = ev["ids"]      # the machine was replaced by its clone: same state, new objects
                self.stats["became_clone"] = self.stats.get("became_clone", 0) + 1
            if op == "add_listener" and not ev.get("exc"):
                for p in ev.get("providers", []):
                    self.active.add(p)
                self.stats["listeners_added_late"] = self.stats.get("listeners_added_late", 0) + len(ev.get("providers", []))
            if op == "probe":
                self._probe(ev)
            if op == "write":
                if ev.get("valid", True):
                    if ev.get("exc"):
                        self.rej("C10.valid-write", f"write of a valid value ({ev['wkind']} -> {ev.get('target')}) raised {ev['exc']}: {ev.get('exc_msg')}")
                    self.state = ev["target"]
                    self.stats["external_writes"] = self.stats.get("external_writes", 0) + 1
                elif ev.get("wkind") == "model_garbage":
                    self.stats["invalid_writes"] = self.stats.get("invalid_writes", 0) + 1
                else:
                    if ev.get("exc") != "InvalidStateValue":
                        self.rej("C10.unmapped-rejected", f"unmapped value written through {ev['wkind']}: outcome {ev.get('exc')}, expected InvalidStateValue")
                    self.stats["invalid_writes"] = self.stats.get("invalid_writes", 0) + 1

    last_landed_exc = None

    def _probe(self, ev):
        if "q_len" in ev:
            self.stats["i1_quiescence_checks"] = self.stats.get("i1_quiescence_checks", 0) + 1
            if (ev["q_len"] and self.state is not None) or ev.get("locked"):
                self.rej("C04.quiescence", f"at quiescence (top-level call returned) the engine queue holds {ev['q_len']} trigger(s), processing lock held={ev.get('locked')}")
        if self.state is None:
            if ev.get("model_is_users") is False:
                self.rej("C10.users-model", "sm.model is not the model object supplied by the user")
            return
        if ev.get("cur") != self.state:
            rule = {"construct": "C11.resume-untouched" if self.constructed_over_stored else "C11.initial-activation",
                    "activate": "C11.initial-activation", "write": "C10.valid-write"}.get(self.last_op, "C01.state-after-event")
            if getattr(self, "step_had_write", False):
                rule = "C10.field-after-transition"
            self.rej(rule, f"current_state is {ev.get('cur')} but reference says {self.state} (after {self.last_op})")
        exp_field = repr(self.value_of(self.state))
        if ev.get("field") != exp_field:
            self.rej("C10.model-field", f"model field {ev.get('field')} != {exp_field}")
        if "allowed" in ev and ev["allowed"] is not None:
            exp = self.allowed_events(self.state)
            if len(set(ev["allowed"])) != len(ev["allowed"]):
                self.rej("C13.allowed-events", f"allowed_events has duplicates {ev['allowed']}")
            if sorted(ev["allowed"]) != sorted(exp):
                self.rej("C13.allowed-events", f"allowed_events {ev['allowed']} != {exp} in {self.state}")
            decl = [e for e in self.spec["events"] if e in exp]
            if decl == exp and getattr(self, "check_allowed_order", True):
                self.stats["allowed_order_compared"] = self.stats.get("allowed_order_compared", 0) + 1
                if ev["allowed"] != exp:
                    self.rej("C13.allowed-events", f"allowed_events order {ev['allowed']} != declaration order {exp}")
        if ev.get("events") is not None:
            if sorted(ev["events"]) != sorted(self.spec["events"]):
                self.rej("C13.events", f"events {ev['events']} != declared {self.spec['events']}")
        if "active" in ev and ev["active"] is not None:
            if ev["active"] != [self.state]:
                self.rej("C10.one-active", f"is_active states {ev['active']} != [{self.state}]")
        if ev.get("csv") is not None and ev["csv"] != exp_field:
            self.rej("C10.model-field", f"current_state_value {ev['csv']} != {exp_field}")
        if ev.get("cs_value") is not None and ev["cs_value"] != exp_field:
            self.rej("C10.model-field", f"current_state.value {ev['cs_value']} != {exp_field}")
        if ev.get("model_is_users") is False:
            self.rej("C10.users-model", "sm.model is not the model object supplied by the user")

    # ---- drains
    def _begin_drain(self, owner_tok, first_item=None):
        self.draining = True
        self.drain_tok = owner_tok
        self.first_result = ("unset",)
        self.drain_events = 0
        self.drain_failing = None
        self.drain_done = False
        if first_item is not None:
            self.queue.append(first_item)
        item = self.queue.popleft()
        self.start_ctx(item)

    def _end_drain(self, ev, exc=None, val=None, is_send=False):
        """The call that owns the drain returned: the reference must be able to finish too."""
        self._drive_rtc(to_end=True)
        failing = self.drain_failing
        self.draining = False
        self.drain_failing = None
        self.drain_done = False
        if failing is not None:
            still = sorted(c for (t_, c) in getattr(self, "masked_open", set()) if t_ == failing.tok)
            if still:
                self.soft("C05.phase-barrier", f"callbacks {still} of event {failing.event}/{failing.tok} were still running when its failure was reported to the caller")
            # failure lands: queue dropped, state per phase rule (already tracked), lock released
            for item in self.queue:
                self.dropped.add(item["tok"])
                self.stats["dropped_tokens"] += 1
            self.queue.clear()
            self.failed_ctx.append(failing)
            exp_type = failing.failing[0]
            self.after_failure = True
            self.last_landed_exc = exp_type
            if exc is None:
                self.rej("C04.exception-reaches-caller",
                         f"reference expects {exp_type} (phase {failing.failing[1]} of {failing.event}/{failing.tok}) to reach the caller; call returned {val}")
            if exc["type"] != exp_type:
                self.rej("C04.exception-reaches-caller" if failing.outcome == "fault" else "C01.exception-type",
                         f"expected {exp_type}, observed {exc['type']}")
            if failing.failing[2] is not None and exc.get("id") is not None and exc.get("id") != failing.failing[2] \
                    and exc.get("id") not in getattr(self, "sibling_excids", {}).get(failing.tok, set()):
                self.rej("C04.exception-reaches-caller", "exception object reaching the caller is not the one raised")
            if exp_type == "TransitionNotAllowed" and failing.outcome == "not-allowed" and "event" in exc:
                if exc.get("event") != failing.event or exc.get("state") != self.state:
                    self.rej("C01.not-allowed-carries", f"TransitionNotAllowed carries event={exc.get('event')} state={exc.get('state')}; expected {failing.event}/{self.state}")
            return
        if exc is not None:
            self.rej("C01.exception-type" if not self.after_failure else "C04.usable-after-failure",
                     f"call raised {exc['type']} ({exc.get('msg')}) but the reference completes normally")
        if is_send:
            self._check_result(self.first_result, val, "outermost")
        self.after_failure = False

    def _check_result(self, exp, val, what):
        self.stats["results_checked"] += 1
        if exp == ("unset",) or exp == ("none",):
            want = {"v": None, "t": "NoneType"}
            if val != want:
                self.rej("C03.nested-returns-none" if what == "nested" else "C14.result", f"{what} send returned {val}, expected None")
            return
        ctx = exp[1]
        if ctx.outcome == "ignored":
            if val != {"v": None, "t": "NoneType"}:
                self.rej("C14.result", f"{what} send of an event that fired nothing returned {val}")
            return
        b, o = ctx.result_parts
        n = len(b) + len(o)
        if not hasattr(self, "result_patterns"):
            self.result_patterns = set()
        kinds = lambda xs: tuple(sorted(next(iter(x)) + ":" + str(x.get("t", "")) for x in xs))  # noqa: E731
        tk = "internal" if ctx.t["internal"] else ("self" if ctx.t["src"] == ctx.t["dst"] else "external")
        self.result_patterns.add((len(b), len(o), kinds(b), kinds(o), tk, what))
        if n == 0:
            ok = val == {"v": None, "t": "NoneType"}
        elif n == 1:
            ok = val == (b + o)[0]
        else:
            ok = isinstance(val, dict) and "list" in val and len(val["list"]) == n
            if ok:
                key = lambda x: json.dumps(x, sort_keys=True)  # noqa: E731
                ok = sorted(map(key, val["list"][: len(b)])) == sorted(map(key, b)) and sorted(
                    map(key, val["list"][len(b):])) == sorted(map(key, o))
        if not ok:
            rule = "C14.result"
            if what == "outermost" and self._looks_like_other_result(val):
                rule = "C03.first-result"
            self.rej(rule, f"{what} send returned {val}; expected before={b} on={o}")

    def _looks_like_other_result(self, val):
        return getattr(self, "drain_events", 0) > 1

    # ---- sends
    def on_send_call(self, ev):
        tok = ev["tok"]
        self.sends[tok] = ev
        item = {"tok": tok, "event": ev["event"], "args": ev.get("args"), "ukw": ev.get("ukw"),
                "nested_in": ev.get("nested")}
        if ev.get("nested"):
            self.step_nested = True
            self.stats["nested_sends"] += 1
            c = self.ctx
            if not hasattr(self, "send_phases"):
                self.send_phases = set()
            if c is not None:
                self.send_phases.add(("initial:" if c.initial else "") + str(c.phase))
        if self.rtc:
            if self.draining:
                self.queue.append(item)
                self.stats["queued_max"] = max(self.stats["queued_max"], len(self.queue))
                self.pending_returns[tok] = ("none",)
            else:
                if self.state is None and self.spec.get("any_async"):
                    # async engine: implicit activation is queued in front of the first event
                    self.queue.append({"tok": "__initial__", "event": "__initial__"})
                self.queue.append(item)
                self._begin_drain(tok)
                self.pending_returns[tok] = ("drain",)
        else:
            # non-rtc: processed immediately, depth-first
            if self.state is None and self.spec.get("any_async"):
                pass
            self.start_ctx(item)
            self.pending_returns[tok] = ("ctx", self.ctx)

    def on_send_return(self, ev):
        tok = ev["tok"]
        exp = self.pending_returns.pop(tok, None)
        if exp is None:
            self.rej("internal", f"send_return for unknown token {tok}")
        exc = ev.get("exc_info") if ev.get("exc") else None
        val = ev.get("val")
        if exp == ("none",):
            if exc is not None:
                self.rej("C03.nested-returns-none", f"nested send {tok} raised {exc['type']} in rtc mode")
            self._check_result(("none",), val, "nested")
            return
        if exp == ("drain",):
            self._end_drain(ev, exc=exc, val=val, is_send=True)
            return
        # non-rtc: own context must be finishable now
        ctx = exp[1]
        if self.ctx is not ctx:
            self.rej("C03.non-rtc-depth-first", f"send {tok} returned while context {self.ctx.tok if self.ctx else None} is current")
        self._settle(ctx, force_cond=True)
        if ctx.phase != "done" and not ctx.failing:
            if ctx.open:
                self.rej("C03.no-interleave", f"non-rtc event {ctx.event} returned with open callbacks")
            for _ in range(8):
                if ctx.phase == "done" or ctx.failing:
                    break
                self._missing(ctx, sorted(ctx.pending))
                self._settle(ctx, force_cond=True)
        self.stack.pop()
        if ctx.failing:
            exp_type = ctx.failing[0]
            self.failed_ctx.append(ctx)
            self.after_failure = True
            if exc is None:
                self.rej("C04.exception-reaches-caller", f"expected {exp_type} from non-rtc send {tok}; returned {val}")
            if exc["type"] != exp_type:
                self.rej("C04.exception-reaches-caller" if ctx.outcome == "fault" else "C01.exception-type",
                         f"expected {exp_type}, observed {exc['type']}")
            if exp_type == "TransitionNotAllowed" and ctx.outcome == "not-allowed" and (exc.get("event") != ctx.event or exc.get("state") != self.state):
                self.rej("C01.not-allowed-carries", f"TransitionNotAllowed carries {exc.get('event')}/{exc.get('state')}; expected {ctx.event}/{self.state}")
            # propagate to the enclosing callback: it must end with this exception
            self.propagating = (exp_type, exc.get("id"))
            return
        if exc is not None:
            self.rej("C01.exception-type" if not self.after_failure else "C04.usable-after-failure",
                     f"non-rtc send raised {exc['type']} but the reference completes normally")
        self._check_result(("res", ctx), val, "non-rtc")
        if not self.stack:
            self.after_failure = False

    propagating = None
    quiet_step = None
    last_op = None
    constructed_over_stored = False

    # ---- callbacks
    def _locate_ctx_for(self, tok, cid, ev):
        """Make the context owning (tok) current, advancing the reference when allowed."""
        ctx = self.ctx
        if tok in self.dropped:
            self.rej("C04.dropped-never-run", f"callback {cid} ran for token {tok} that was dropped by an earlier failure")
        for f in self.failed_ctx:
            if f.tok == tok and cid in f.fail_phase_set:
                self.soft("C05.phase-barrier", f"callback {cid} of event {f.event}/{tok} started after that event's failure had been reported")
                return "masked"
        if getattr(self, "drain_failing", None) is not None and self.drain_failing.tok == tok and cid in self.drain_failing.fail_phase_set:
            return "masked"
        if ctx is not None and ctx.failing and ctx.tok == tok and cid in ctx.fail_phase_set:
            return "masked"
        if getattr(self, "quiet_step", None) and not self.draining and not self.stack:
            self.rej(self.quiet_step, f"callback {cid} ran although the machine already holds a state (nothing to activate)")
        if self.rtc:
            if ctx is None or ctx.tok != tok:
                if not self.draining:
                    self.rej("C03.queued-until-done" if tok in self.sends else "C02.extra-callback",
                             f"callback {cid} for token {tok} outside any processing")
                # the reference must be able to finish the current event and reach tok in FIFO order
                if ctx is not None and ctx.open:
                    self.rej("C03.no-interleave", f"callback {cid} of {tok} began while {sorted(ctx.open)} of {ctx.tok} are still running")
                if ctx is not None and ctx.pending and self._begins_later(ctx):
                    self.rej("C03.queued-until-done", f"callback {cid} of {tok} began before event {ctx.tok} finished phase {ctx.phase}")
                heads = [i["tok"] for i in self.queue]
                if tok in heads and heads[0] != tok and (ctx is None or ctx.tok != tok):
                    # maybe current ctx finishes and tok is next; checked after driving
                    pass
                self._drive_rtc(until_tok=tok)
                ctx = self.ctx
                if getattr(self, "drain_failing", None) is not None:
                    f = self.drain_failing
                    self.rej("C04.dropped-never-run" if tok in self.sends else "C02.extra-callback",
                             f"callback {cid} for token {tok} although event {f.tok} failed with {f.failing[0]}")
                if ctx is None or ctx.tok != tok:
                    if any(i["tok"] == tok for i in self.queue):
                        self.rej("C03.fifo", f"callback {cid} of token {tok} began out of FIFO order (expected {ctx.tok if ctx else None})")
                    self.rej("C02.extra-callback", f"callback {cid} for token {tok}: no such event is being processed")
        else:
            if ctx is None or ctx.tok != tok:
                self.rej("C03.non-rtc-depth-first", f"callback {cid} for token {tok} while context {ctx.tok if ctx else None} is current")
        return self.ctx

    def _begins_later(self, ctx):
        cur = self.cur_n or 0
        return any(any(n > cur for n in self.begin_ns.get((ctx.tok, c), ())) for c in ctx.pending)

    begin_ns = {}

    def on_cb_begin(self, ev):
        cid, tok = ev["cb"], ev.get("tok")
        if tok is None:
            tok = self.ctx.tok if self.ctx else None
        got = self._locate_ctx_for(tok, cid, ev)
        if got == "masked":
            self.stats["masked_siblings"] += 1
            self.masked_open = getattr(self, "masked_open", set())
            self.masked_open.add((tok, cid))
            return
        ctx = got
        if ctx.failing:
            self.rej("C04.stops-after-failure", f"callback {cid} began after event {ctx.tok} failed with {ctx.failing[0]}")
        # find the phase that owns cid, advancing over complete phases
        guard_forced = False
        while True:
            if ctx.phase in ("validators", "cond", "none-left"):
                if ctx.phase == "none-left":
                    self.rej("C01.selection", f"callback {cid} ran although no candidate of {ctx.event} in {ctx.src_state} is enabled")
                t = ctx.cands[ctx.ci]
                # an action callback: the candidate must be enabled per the reference
                if self.raising_validators(t):
                    self.rej("C01.validator-aborts", f"callback {cid} ran although validator {self.raising_validators(t)} of t{t['i']} raises")
                if not self.enabled(t):
                    # rejected candidate must run no action: cid may only belong to a later candidate
                    self._leave_candidate(ctx, f"callback {cid} ran")
                    continue
                if self.validator_ids(t) - ctx.seen_validators:
                    self.soft("C02.exactly-once", f"callback {cid} ran but validators {sorted(self.validator_ids(t) - ctx.seen_validators)} of t{t['i']} never did")
                    ctx.seen_validators |= self.validator_ids(t)
                ctx.phase = "cond"
                self._advance(ctx)
                continue
            if ctx.phase == "done":
                self.rej("C02.extra-callback", f"callback {cid} after event {ctx.tok} completed")
            if cid in ctx.pending:
                break
            if cid in ctx.open:
                self.rej("C02.exactly-once", f"callback {cid} began again while still running in phase {ctx.phase} of event {ctx.tok}")
            if not self._phase_complete(ctx):
                if cid in getattr(ctx, "phase_sets", {}).get(ctx.phase, ()):
                    self.rej("C02.exactly-once", f"callback {cid} ran twice in phase {ctx.phase} of event {ctx.tok}")
                # is cid part of a later phase? then order violation; else extra/wrong
                if self._in_later_phase(ctx, cid):
                    if not ctx.open and not self._begins_later(ctx):
                        self._missing(ctx, sorted(ctx.pending))
                        continue
                    self.rej("C02.order", f"callback {cid} (later phase) began while phase '{ctx.phase}' still has pending {sorted(ctx.pending)} open {sorted(ctx.open)}")
                self.rej("C02.extra-callback", f"callback {cid} is not expected in event {ctx.event}/{ctx.tok} t{ctx.t['i']} phase {ctx.phase}")
            if not self._in_later_phase(ctx, cid):
                if any(cid in s_ for s_ in getattr(ctx, "phase_sets", {}).values()):
                    self.rej("C02.exactly-once", f"callback {cid} ran once more than expected in event {ctx.event}/{ctx.tok} (phase {ctx.phase})")
                self.rej("C02.extra-callback", f"callback {cid} is not expected anywhere in event {ctx.event}/{ctx.tok} t{ctx.t['i']}")
            if not self._advance(ctx):
                self.rej("C02.extra-callback", f"callback {cid} is not expected anywhere in event {ctx.event}/{ctx.tok} t{ctx.t['i']}")
        ctx.pending.discard(cid)
        ctx.open.add(cid)
        self.stats["cb_checked"] += 1
        self._check_view(ctx, ev)

    @staticmethod
    def _phases_before(phase):
        order = ["before", "exit", "on", "enter", "after"]
        return order[: order.index(phase)] if phase in order else []

    def _in_later_phase(self, ctx, cid):
        t = ctx.t
        order = ["before", "exit", "on", "enter", "after"]
        if ctx.phase not in order:
            return False
        for p in order[order.index(ctx.phase) + 1:]:
            if p in ("before", "on", "after"):
                s = set() if ctx.initial else self.tset(t, p, ctx.event)
            elif p == "exit":
                s = set() if (t["internal"] or ctx.initial) else self.sset(t["src"], "exit")
            else:
                s = set() if t["internal"] else self.sset(t["dst"], "enter")
            if cid in s:
                return True
        return False

    def _check_view(self, ctx, ev):
        t = ctx.t
        ids = getattr(self, "ids", None)
        if ids and ev.get("mid") is not None:
            if ev["mid"] != ids["sm"]:
                self.rej("C12.instance-isolation", f"{ev['cb']}: injected machine is not this instance")
            prov = self.cbs.get(ev["cb"], {}).get("provider")
            if ev.get("sid") is not None and prov in ids and ev["sid"] != ids[prov]:
                self.rej("C12.instance-isolation", f"{ev['cb']}: callback ran on another object than this instance's {prov}")
        if ev.get("event") != ctx.event:
            self.rej("C02.event-source-target", f"{ev['cb']}: injected event {ev.get('event')} != {ctx.event}")
        if ev.get("source") != t["src"] or ev.get("target") != t["dst"]:
            self.rej("C02.event-source-target", f"{ev['cb']}: injected source/target {ev.get('source')}->{ev.get('target')} != {t['src']}->{t['dst']}")
        if "t_src" in ev and (ev["t_src"] != t["src"] or ev["t_dst"] != t["dst"] or ev.get("t_int") != t["internal"]):
            self.rej("C02.event-source-target", f"{ev['cb']}: injected transition {ev['t_src']}->{ev['t_dst']} != t{t['i']}")
        exp_state = t["dst"] if ctx.phase in ("enter", "after") else t["src"]
        if ev.get("state") != exp_state and self.rtc:
            self.rej("C02.view-of-state", f"{ev['cb']} in phase {ctx.phase}: injected state {ev.get('state')} != {exp_state}")
        edv = ev.get("ed_view")
        if edv is not None and edv != [ev.get("state"), ev.get("source"), ev.get("target"), ev.get("event")]:
            self.rej("C02.view-of-state", f"{ev['cb']} in phase {ctx.phase}: event_data (state, source, target, event) = {edv} differs "
                                          f"from the injected parameters {[ev.get('state'), ev.get('source'), ev.get('target'), ev.get('event')]}")
        if self.rtc or not ctx.nested_seen:
            cur = self.state if self.state is not None else None
            if ctx.initial and not ctx.assigned:
                pass
            elif ev.get("cur") != cur:
                self.rej("C10.field-after-transition" if getattr(self, "step_had_write", False) else "C02.view-of-state",
                         f"{ev['cb']} in phase {ctx.phase}: machine.current_state {ev.get('cur')} != {cur}")
            elif ev.get("field") != repr(self.value_of(cur)):
                self.rej("C10.model-field", f"{ev['cb']}: model field {ev.get('field')} != {self.value_of(cur)!r}")
        if ev.get("model_ok") is False or ev.get("ed_ok") is False:
            self.rej("C07.builtins", f"{ev['cb']}: injected model/event_data are not the machine's own")
        if self.strict_args and not ctx.initial:
            if ctx.args is not None and ev.get("ed_args") is not None and ev["ed_args"] != list(ctx.args):
                self.rej("C07.forwarding", f"{ev['cb']}: event_data.args {ev['ed_args']} != sent {ctx.args}")
            if ctx.ukw is not None and ev.get("ed_ukw") is not None and ev["ed_ukw"] != sorted(ctx.ukw):
                self.rej("C07.forwarding", f"{ev['cb']}: trigger_data.kwargs keys {ev['ed_ukw']} != sent {sorted(ctx.ukw)}")
            if ctx.args is not None and ev.get("args") != list(ctx.args):
                self.rej("C07.forwarding", f"{ev['cb']}: positional args {ev.get('args')} != sent {ctx.args}")
            if ctx.ukw is not None and ev.get("ukw") != ctx.ukw:
                self.rej("C07.forwarding", f"{ev['cb']}: user kwargs {ev.get('ukw')} != sent {ctx.ukw}")

    def on_cb_end(self, ev):
        cid, tok = ev["cb"], ev.get("tok")
        mo = getattr(self, "masked_open", set())
        ctx = self.ctx
        if tok is None and ctx is not None:
            tok = ctx.tok
        if (tok, cid) in mo:
            mo.discard((tok, cid))
            if ev.get("exc"):
                # a sibling (same group, running concurrently) failed as well: either failure may be the
                # one that reaches the caller
                self.__dict__.setdefault("sibling_excids", {}).setdefault(tok, set()).add(ev.get("excid"))
            return
        if ctx is None or cid not in ctx.open:
            self.rej("internal", f"cb_end {cid} without matching begin in current context")
        ctx.open.discard(cid)
        if ev.get("exc"):
            self.stats["faults"] += 1
            if self.propagating is not None and self.propagating[0] == ev["exc"]:
                # exception from a nested non-rtc send passing through the sending callback
                kind = self.propagating
                self.propagating = None
                ctx.failing = (ev["exc"], ctx.phase, kind[1])
                ctx.outcome = "fault"
            else:
                ctx.failing = (ev["exc"], ctx.phase, ev.get("excid"))
                ctx.outcome = "fault"
                if not hasattr(self, "fault_classes"):
                    self.fault_classes = set()
                tk = "initial" if ctx.initial else ("nested" if str(ctx.tok).startswith("n") else "driver")
                self.fault_classes.add((ctx.phase, tk, self.cbs.get(cid, {}).get("provider"), bool(self.queue), self.rtc, ev["exc"]))
            ctx.fail_phase_set = set(getattr(ctx, "phase_sets", {}).get(ctx.phase, set())) - {cid}
            ctx.pending = set()
            # siblings already running (gather) finish on their own: their end is masked too
            self.masked_open = getattr(self, "masked_open", set()) | {(tok, c) for c in ctx.open}
            ctx.open = set()
            if self.rtc:
                self._finish_ctx_rtc()
            return
        if ctx.phase in ("before", "on") and not ctx.initial:
            ctx.rets[ctx.phase][cid] = ev.get("ret")

    # ---- guards / validators
    def _roll_to_selection(self):
        """rtc: a token-less observation (property guard) may belong to the next queued event:
        finish the current event when it has nothing left to observe."""
        while True:
            ctx = self.ctx
            if ctx is None or ctx.failing or ctx.phase in ("validators", "cond", "none-left"):
                return ctx
            self._settle(ctx)
            if ctx.phase == "done":
                self._finish_ctx_rtc()
                if getattr(self, "drain_done", False) or getattr(self, "drain_failing", None) is not None:
                    return None
                continue
            return ctx

    def on_guard(self, ev):
        ctx = self.ctx
        if ctx is None or (ctx.initial and ev.get("tok") is None and not self.queue):
            return   # registration-time read of a property guard
        self.stats["guards_seen"] += 1
        gid = ev["g"]
        name = ev["name"]
        tok = ev.get("tok")
        if tok is not None and tok != ctx.tok and self.rtc:
            self._locate_ctx_for(tok, "guard:" + gid, ev)
            ctx = self.ctx
        elif tok is None and self.rtc:
            ctx = self._roll_to_selection()
            if ctx is None:
                self.rej("C02.extra-callback", f"guard {gid} evaluated but no event is left to process")
        if ctx.failing:
            return
        df = getattr(self, "drain_failing", None)
        if df is not None and df.tok == tok:
            self.stats["masked_siblings"] += 1
            return
        tid = ev.get("tid")
        for _ in range(10000):
            if ctx.phase in ("validators", "cond"):
                t = ctx.cands[ctx.ci]
                tids = ctx.__dict__.setdefault("tids", {})
                same_t = tid is None or tids.get(ctx.ci) in (None, tid)
                if gid in self.guard_ids(t) and same_t and (ev.get("t_dst") in (None, t["dst"])) and gid not in ctx.seen_guards:
                    if tid is not None:
                        tids[ctx.ci] = tid
                    raising = self.raising_validators(t)
                    if raising and bool(ctx.seen_validators & raising):
                        self.rej("C01.validator-aborts", f"guard {gid} evaluated after validator of t{t['i']} raised")
                    if ctx.phase == "validators" and self.validator_ids(t) - ctx.seen_validators:
                        self.soft("C02.order", f"guard {gid} evaluated before validators {sorted(self.validator_ids(t) - ctx.seen_validators)} of t{t['i']}")
                    ctx.seen_guards.add(gid)
                    if ev.get("val") == "raise":
                        # a guard that raises is a failing callback: the event aborts, state = source
                        ctx.failing = ("ValidatorError", "cond", None)
                        ctx.outcome = "fault"
                        ctx.fail_phase_set = set()
                        self.stats["faults"] += 1
                        self.stats["guard_faults"] = self.stats.get("guard_faults", 0) + 1
                        if not hasattr(self, "fault_classes"):
                            self.fault_classes = set()
                        self.fault_classes.add(("cond", "guard", "sm", bool(self.queue), self.rtc, "ValidatorError"))
                        if self.rtc:
                            self._finish_ctx_rtc()
                        return
                    gk = next((g["kind"] for g in t["guards"] if g["name"] == name), None)
                    if ev.get("val") in (True, False) and ((gk == "cond" and not ev["val"]) or (gk == "unless" and ev["val"])):
                        ctx.decided_ci = ctx.ci
                    if ev.get("event") not in (None, ctx.event):
                        self.rej("C02.event-source-target", f"guard {gid}: injected event {ev.get('event')} != {ctx.event}")
                    return
                if gid in self.guard_ids(t) and gid in ctx.seen_guards and same_t and (ev.get("t_dst") in (None, t["dst"])):
                    need = {g_ for g_ in self.guard_ids(t) if self.spec["guards"][g_.split("@")[0]]["kind"] != "attr"}
                    decided = getattr(ctx, "decided_ci", None) == ctx.ci or need <= ctx.seen_guards
                    nxt = ctx.cands[ctx.ci + 1] if ctx.ci + 1 < len(ctx.cands) else None
                    if (tid is None and not self.enabled(t) and decided and nxt is not None
                            and gid in self.guard_ids(nxt) and not self.validator_ids(nxt)):
                        self._leave_candidate(ctx, f"guard {gid} of the next candidate was evaluated")
                        continue
                    # a guard of this candidate evaluated a second time for the same event: every entry
                    # of the generated machines names a guard once, so this is a provider attached twice
                    self.stats["repeated_guard_evals"] = self.stats.get("repeated_guard_evals", 0) + 1
                    if ev.get("tok") is not None:
                        # (token-less reads of property guards cannot be told from the next event's: H2)
                        self.soft("C12.attached-once", f"guard {gid} of t{t['i']} evaluated more than once for event {ctx.event}/{ctx.tok}")
                    return
                # not a guard of this candidate: a later candidate (or, token-less, a later event)
                if self.enabled(t) and not self.raising_validators(t) and tok is None and self.rtc:
                    # a token-less guard may belong to the next queued event: the current one
                    # must then be completable without further observations
                    ctx.phase = "cond"
                    self._advance(ctx)
                    ctx2 = self._roll_to_selection()
                    if ctx2 is not None and ctx2 is not ctx:
                        ctx = ctx2
                        continue
                    self.rej("C01.selection", f"guard {gid} (not of candidate t{t['i']}, or repeated) evaluated although t{t['i']} is enabled")
                self._leave_candidate(ctx, f"guard {gid} of a later candidate was evaluated")
                continue
            if ctx.phase == "none-left":
                if tok is None and self.rtc and self.allow:
                    self._advance(ctx)
                    self._finish_ctx_rtc()
                    ctx = self._roll_to_selection()
                    if ctx is not None:
                        continue
                self.rej("C01.selection", f"guard {gid} evaluated but no candidate of {ev.get('event')} is left")
            self.rej("C02.order", f"guard {gid} evaluated in phase {ctx.phase} of {ctx.event}/{ctx.tok}")

    def on_guard_end(self, ev):
        """A coroutine guard finished: its candidate's selection phase must still be the current one."""
        ctx = self.ctx
        gid, tok = ev["g"], ev.get("tok")
        self.stats["async_guard_completions"] = self.stats.get("async_guard_completions", 0) + 1
        df = getattr(self, "drain_failing", None)
        if (df is not None and df.tok == tok) or (ctx is not None and ctx.failing and ctx.tok == tok):
            self.stats["masked_siblings"] += 1    # sibling of a guard/validator that raised
            return
        if any(f.tok == tok for f in self.failed_ctx):
            self.soft("C05.phase-barrier", f"coroutine guard {gid} of event token {tok} completed after that event's failure had been reported")
            return
        ok = (
            ctx is not None and ctx.tok == tok and not ctx.failing and ctx.phase in ("validators", "cond")
            and gid in ctx.seen_guards
        )
        if not ok:
            where = f"{ctx.event}/{ctx.tok} phase {ctx.phase}" if ctx is not None else "no event in progress"
            self.soft("C05.phase-barrier", f"coroutine guard {gid} of event token {tok} completed after its phase had ended (now: {where})")

    def on_validator(self, ev):
        ctx = self.ctx
        tok = ev.get("tok")
        df = getattr(self, "drain_failing", None)
        if df is not None and df.outcome == "validator" and tok in (None, df.tok):
            self.stats["masked_siblings"] += 1   # sibling validator of the raising one (gather)
            return
        if ctx is None:
            self.rej("C02.extra-callback", f"validator {ev['g']} outside processing")
        if tok is not None and tok != ctx.tok and self.rtc:
            self._locate_ctx_for(tok, "validator:" + ev["g"], ev)
            ctx = self.ctx
        if ctx.failing:
            self.stats["masked_siblings"] += 1
            return
        gid = ev["g"]
        for _ in range(10000):
            if ctx.phase in ("validators", "cond"):
                t = ctx.cands[ctx.ci]
                if gid in self.validator_ids(t) and gid not in ctx.seen_validators and ev.get("t_dst") in (None, t["dst"]):
                    if ctx.seen_guards:
                        self.soft("C02.order", f"validator {gid} of t{t['i']} ran after guards {sorted(ctx.seen_guards)}")
                    ctx.seen_validators.add(gid)
                    return
                self._leave_candidate(ctx, f"validator {gid} of a later candidate ran")
                continue
            if ctx.phase == "none-left":
                self.rej("C01.selection", f"validator {gid} ran but no candidate is left")
            self.rej("C02.order", f"validator {gid} ran in phase {ctx.phase}")

    def on_validator_raise(self, ev):
        ctx = self.ctx
        if ctx is not None and not ctx.failing and ctx.phase in ("validators", "cond"):
            t = ctx.cands[ctx.ci]
            ctx.failing = ("ValidatorError", "validators", ev.get("excid"))
            ctx.outcome = "validator"
            ctx.fail_phase_set = set()
            self.stats["validator_aborts"] += 1
            if not self.raising_validators(t):
                self.rej("internal", "validator raised although valuation says ok")
            if self.rtc:
                self._finish_ctx_rtc()

    def on_note(self, ev):
        if ev.get("what") == "instance-isolation":
            self.rej("C12.instance-isolation", ev.get("detail"))
        if ev.get("what") == "clone":
            self.stats["clones"] = self.stats.get("clones", 0) + 1
            if ev.get("problems"):
                self.rej("C17.clone-equivalent-at-copy", "; ".join(ev["problems"]))
        if ev.get("what") == "clone-failed":
            self.rej("C17.clone-equivalent-at-copy", f"{ev.get('how')} failed: {ev.get('exc')}")
        if ev.get("what") == "other-definition":
            self.stats["other_definitions"] = self.stats.get("other_definitions", 0) + 1
        if ev.get("what") == "poke":
            self.stats["pokes"] = self.stats.get("pokes", 0) + 1
        if ev.get("what") == "other-activity":
            self.stats["other_instance_callbacks"] = self.stats.get("other_instance_callbacks", 0) + ev.get("callbacks", 0)
            self.stats["other_instance_steps"] = self.stats.get("other_instance_steps", 0) + 1
        if ev.get("what") == "not-awaitable-in-loop":
            self.rej("C13.same-entry-point", f"inside a running loop, {ev.get('style')}({ev.get('event')!r}) on a machine with coroutine callbacks returned "
                                             f"{ev.get('got')} instead of something awaitable")
        if ev.get("what") == "garbage-in-model":
            self.stats["garbage_reads"] = self.stats.get("garbage_reads", 0) + 1
            r = ev.get("reads", {})
            if isinstance(r.get("is_active"), list) and sum(r["is_active"]) != 1:
                self.rej("C10.one-active", f"model holds the unmapped value {ev.get('value')}: is_active of the states reads {r['is_active']} "
                                           f"(current_state: {r.get('current_state')})")
            if r.get("current_state") != "InvalidStateValue" and not isinstance(r.get("is_active"), list):
                pass
            if r.get("current_state") not in ("InvalidStateValue",):
                self.rej("C10.unmapped-rejected", f"model holds the unmapped value {ev.get('value')}: current_state reads {r.get('current_state')}")
        if ev.get("what") == "odd-state-field":
            self.stats["odd_state_field_constructions"] = self.stats.get("odd_state_field_constructions", 0) + 1
            if ev.get("got") != ["built", "built"]:
                self.rej("C16.definition-check-per-instance", f"a machine of the class with state_field={ev.get('name')!r} (the name of a guard the class provides) "
                                                              f"and the next ordinary instance: {ev.get('got')}")
        if ev.get("what") == "incomplete-construct":
            self.stats["incomplete_constructions"] = self.stats.get("incomplete_constructions", 0) + (ev.get("expected") == "rejected")
            if ev.get("got") == "rejected" and (ev.get("left_behind") is not None or ev.get("callbacks_ran")):
                self.rej("C11.rejected-construction-has-no-effect", f"a construction rejected with InvalidDefinition left the state {ev.get('left_behind')} in the "
                                                                    f"model and ran callbacks {ev.get('callbacks_ran')}: the next machine over that model would resume instead of activating")
            if ev.get("got") != ev.get("expected"):
                self.rej("C16.definition-check-per-instance", f"another machine of the class over a bare model (names only other providers have: {ev.get('missing')}) was {ev.get('got')}, expected {ev.get('expected')}")
        if ev.get("what") == "foreign-trigger-fired":
            self.rej("C13.send-delivers-to-receiver", f"sm.send(<trigger {ev.get('event')} of another machine>) fired the event on that other machine")
        if ev.get("what") == "bound-trigger-missing":
            self.rej("C13.bound-events", f"bind_events_to did not bind the trigger of declared event {ev.get('event')} on a clash-free target")

    def on_cb_write(self, ev):
        """A callback wrote another valid value to the model field (external write in flight)."""
        self.state = ev["target"]
        self.step_had_write = True
        self.stats["external_writes"] = self.stats.get("external_writes", 0) + 1
        self.stats["writes_in_flight"] = self.stats.get("writes_in_flight", 0) + 1


def check_log(spec, log, value_of=None, strict_args=True, prepare=None):
    """Runs the checker over a recorded log. Returns (rejection | None, checker)."""
    ck = Checker(spec, value_of=value_of, strict_args=strict_args)
    if spec.get("style"):
        ck.check_allowed_order = False      # declaration styles attach events in another order (not C13's subject there)
    if prepare:
        prepare(ck)
    ck.begin_ns = {}
    for e in log:
        if e["k"] == "cb_begin":
            ck.begin_ns.setdefault((e.get("tok"), e["cb"]), []).append(e["n"])
    try:
        for ev in log:
            ck.feed(ev)
    except Reject as r:
        return r, ck
    return None, ck
