"""Seeded generator of abstract machine specs and scenarios (plain JSON-able data)."""

from __future__ import annotations

import itertools
from .rec import RET_CODES

EVENT_POOL = ["go", "go_back", "g", "run", "stop", "tick", "tock", "run_fast", "e1", "e2", "back", "goo"]
GROUPS_T = ("before", "on", "after")
GROUPS_S = ("enter", "exit")

_uid = itertools.count(1)


def next_uid():
    return next(_uid)


DEFAULT_PROFILE = {
    "n_states": (2, 6),
    "n_events": (1, 4),
    "extra_transitions": (0, 6),
    "p_multi_event": 0.2,
    "p_internal": 0.25,      # of self transitions
    "p_self": 0.2,
    "p_final": 0.15,
    "p_guard": 0.5,
    "p_validator": 0.12,
    "n_guard_names": 4,
    "n_validator_names": 2,
    "p_conv": 0.25,          # probability of each convention callback on each provider
    "p_inline": 0.3,         # per (transition|state, group)
    "p_deco": 0.15,
    "providers": ["sm", "model", "l0"],
    "p_provider": {"sm": 1.0, "model": 0.4, "l0": 0.5, "l1": 0.3},
    "async_mode": "none",    # none | all | one | half
    "p_nested": 0.0,         # probability that a callback sends nested events
    "nested_max": 2,
    "p_unknown_nested": 0.0,
    "rtc": None,             # None = random
    "allow": None,
    "guard_kinds": ["method", "method", "prop", "attr"],
    "yields": 0,
    "value_kinds": ["default"],
    "p_any": 0.25,           # probability of from_.any() declarations
    "p_reuse_ref": 0.15,     # the same callback referenced in a second group of the same owner
    "p_sigdeco": 0.0,        # callbacks wrapped by a signature-preserving decorator (__signature__)
}


def _choice_range(rng, rng_pair):
    lo, hi = rng_pair
    return rng.randint(lo, hi)


def gen_spec(rng, profile=None, uid=None):
    P = dict(DEFAULT_PROFILE)
    if profile:
        P.update(profile)
    uid = uid if uid is not None else next_uid()
    n = _choice_range(rng, P["n_states"])
    sids = [f"s{i}" for i in range(n)]
    if P.get("state_ids") and rng.random() < P.get("p_state_ids", 0.5):
        # unusual state identifiers (names that mean something to a renderer or to the library)
        odd = rng.sample(P["state_ids"], min(len(P["state_ids"]), n))
        for k, name in enumerate(odd):
            if rng.random() < 0.6:
                sids[rng.randrange(n) if k else 0] = name
        seen = []
        for k, s_ in enumerate(sids):
            seen.append(s_ if s_ not in seen else f"s{k}")
        sids = seen
    finals = set()
    for s in sids[1:]:
        if rng.random() < P["p_final"] and len(finals) < n - 2:
            finals.add(s)
    nev = _choice_range(rng, P["n_events"])
    events = rng.sample(EVENT_POOL, nev)
    trans = []

    def add_t(src, dst, evs, internal=False):
        trans.append({"src": src, "dst": dst, "events": list(evs), "internal": internal,
                      "guards": [], "validators": [], "refs": {g: [] for g in GROUPS_T}})

    # reachability: arborescence
    placed = [sids[0]]
    for s in sids[1:]:
        parents = [p for p in placed if p not in finals] or [sids[0]]
        add_t(rng.choice(parents), s, [rng.choice(events)])
        placed.append(s)
    nonfinal = [s for s in sids if s not in finals]
    for _ in range(_choice_range(rng, P["extra_transitions"])):
        src = rng.choice(nonfinal)
        if rng.random() < P["p_self"]:
            dst = src
        else:
            dst = rng.choice(sids)
        internal = dst == src and rng.random() < P["p_internal"]
        add_t(src, dst, [rng.choice(events)], internal)
    # more candidates for the same (state, event)
    for t in list(trans):
        if rng.random() < 0.35:
            dst = rng.choice(sids)
            add_t(t["src"], dst, [t["events"][0]], internal=False)
    for t in trans:
        if rng.random() < P["p_multi_event"] and len(events) > 1:
            extra = rng.choice([e for e in events if e not in t["events"]])
            t["events"].append(extra)
    rng.shuffle(trans)
    for i, t in enumerate(trans):
        t["i"] = i
    # events actually used, in a declaration order
    used = [e for e in events if any(e in t["events"] for t in trans)]
    events = used
    for t in trans:
        t["events"].sort(key=events.index)

    # from_.any() declarations: expanded onto every non-final state, after the explicit ones
    any_decls = []
    if rng.random() < P["p_any"]:
        for _ in range(rng.choice([1, 1, 2])):
            if rng.random() < 0.5 or len(events) >= len(EVENT_POOL):
                ev = rng.choice(events)
            else:
                ev = rng.choice([e for e in EVENT_POOL if e not in events])
                events.append(ev)
            any_decls.append({"k": len(any_decls), "dst": rng.choice(sids), "event": ev})
        order = sorted(any_decls, key=lambda d: (events.index(d["event"]), d["k"]))
        for d in order:
            d["copies"] = []
            for s in sids:
                if s in finals:
                    continue
                add_t(s, d["dst"], [d["event"]])
                trans[-1]["i"] = len(trans) - 1
                trans[-1]["from_any"] = d["k"]
                d["copies"].append(trans[-1])

    # guards / validators
    gnames = [f"gd{k}" for k in range(P["n_guard_names"])]
    vnames = [f"vl{k}" for k in range(P["n_validator_names"])]
    guards, validators = {}, {}
    by_key = {}
    for t in trans:
        for e in t["events"]:
            by_key.setdefault((t["src"], e), []).append(t)
    for t in trans:
        contested = any(len(by_key[(t["src"], e)]) > 1 for e in t["events"])
        pg = min(0.95, P["p_guard"] * (1.7 if contested else 0.6))
        if gnames and rng.random() < pg:
            for _ in range(rng.choice([1, 1, 2, 3])):
                nm = rng.choice(gnames)
                kind = rng.choice(["cond", "cond", "unless"])
                if any(g["name"] == nm for g in t["guards"]):
                    continue
                t["guards"].append({"kind": kind, "name": nm})
                guards.setdefault(nm, None)
        if vnames and rng.random() < P["p_validator"]:
            nm = rng.choice(vnames)
            t["validators"].append(nm)
            validators.setdefault(nm, None)
    for d in any_decls:
        first = d["copies"][0]
        for c in d["copies"][1:]:
            c["guards"] = [dict(g) for g in first["guards"]]
            c["validators"] = list(first["validators"])
    used_g = {g["name"] for t in trans for g in t["guards"]}
    used_v = {v for t in trans for v in t["validators"]}
    guards = {k: v for k, v in guards.items() if k in used_g}
    validators = {k: v for k, v in validators.items() if k in used_v}
    amode = P["async_mode"]

    def is_async():
        if amode == "all":
            return True
        if amode == "half":
            return rng.random() < 0.5
        return False

    for nm in guards:
        guards[nm] = {"providers": ["sm"], "kind": rng.choice(P["guard_kinds"]), "async": False}
        if is_async():
            guards[nm]["kind"] = "method"
            guards[nm]["async"] = True
    for nm in validators:
        validators[nm] = {"providers": ["sm"], "async": is_async()}

    providers = [p for p in P["providers"] if p == "sm" or rng.random() < P["p_provider"].get(p, 0.3)]
    cbs = {}
    cbn = itertools.count()

    def new_cb(name, provider, kind, **extra):
        cid = f"c{next(cbn)}"
        script = {"ret": rng.choice(RET_CODES)}
        if P["p_nested"] and rng.random() < P["p_nested"]:
            sends = []
            for _ in range(rng.randint(1, P["nested_max"])):
                if rng.random() < P["p_unknown_nested"]:
                    ev = "zz_unknown"
                else:
                    ev = rng.choice(events)
                sends.append({"event": ev})
            script["sends"] = sends
        if P["yields"] and rng.random() < 0.6:
            script["yields"] = rng.randint(1, P["yields"])
        cbs[cid] = {"name": name, "provider": provider, "kind": kind, "async": is_async(), "script": script, **extra}
        if kind in ("method", "func") and P["p_sigdeco"] and rng.random() < P["p_sigdeco"]:
            cbs[cid]["sigdeco"] = True
        return cid

    # convention callbacks
    conv_names = [f"{g}_transition" for g in GROUPS_T] + ["on_enter_state", "on_exit_state"]
    for e in events:
        conv_names += [f"{g}_{e}" for g in GROUPS_T]
    for s in sids:
        conv_names += [f"on_enter_{s}", f"on_exit_{s}"]
    for prov in providers:
        for nm in conv_names:
            if rng.random() < P["p_conv"]:
                new_cb(nm, prov, "method")
    # inline refs
    state_refs = {s: {g: [] for g in GROUPS_S} for s in sids}
    namen = itertools.count()

    def inline_ref(owner_kind):
        r = rng.random()
        if r < 0.55:
            nm = ("_" if rng.random() < P.get("p_underscore_names", 0.1) else "") + f"nm{next(namen)}"
            provs = [p for p in providers if rng.random() < (0.8 if p == "sm" else 0.35)] or ["sm"]
            for p in provs:
                new_cb(nm, p, "method")
            return {"by": "name", "name": nm}
        if r < 0.8:
            nm = f"fn{next(namen)}"
            cid = new_cb(nm, "sm", "func")
            return {"by": "obj", "cb": cid}
        if r < 0.92 or not P.get("p_boundm", 1.0):
            nm = f"lam{next(namen)}"
            cid = new_cb(nm, "sm", "lambda")
            cbs[cid]["async"] = False
            return {"by": "obj", "cb": cid}
        # a bound method of a helper object (two helpers of ONE class are passed side by side, see fill_refs)
        nm = f"bm{next(namen)}"
        cid = new_cb(nm, "sm", "boundm")
        cbs[cid]["async"] = False
        cbs[cid]["script"].pop("sends", None)
        return {"by": "obj", "cb": cid}

    def fill_refs(refs, groups):
        made = []
        for g in groups:
            if rng.random() < P["p_inline"]:
                for _ in range(rng.choice([1, 1, 2])):
                    if made and rng.random() < P["p_reuse_ref"]:
                        r = dict(rng.choice(made))
                        if r not in refs[g] and not (r["by"] == "obj" and cbs[r["cb"]]["kind"] in ("lambda", "boundm")):
                            refs[g].append(r)
                            continue
                    r = inline_ref("x")
                    refs[g].append(r)
                    made.append(r)
                    if r["by"] == "obj" and cbs[r["cb"]]["kind"] == "boundm":
                        nm2 = f"bm{next(namen)}"
                        cid2 = new_cb(nm2, "sm", "boundm")
                        cbs[cid2]["async"] = False
                        cbs[cid2]["script"].pop("sends", None)
                        refs[g].append({"by": "obj", "cb": cid2})

    for t in trans:
        if t.get("from_any") is not None and t is not any_decls[t["from_any"]]["copies"][0]:
            continue
        fill_refs(t["refs"], GROUPS_T)
    for d in any_decls:
        for c in d["copies"][1:]:
            c["refs"] = {g: [dict(r) for r in d["copies"][0]["refs"][g]] for g in GROUPS_T}
    for s in sids:
        fill_refs(state_refs[s], GROUPS_S)
    # a class-body function passed as a callable (enter=/exit=) whose NAME also matches the naming
    # convention of the very place it is passed to: still one callback, called once
    if P.get("p_conv_named_func", 0.3):
        def n_refs(cid):
            return sum(1 for t_ in trans for g_ in GROUPS_T for r_ in t_["refs"][g_] if r_.get("cb") == cid) + sum(
                1 for s_ in sids for g_ in GROUPS_S for r_ in state_refs[s_][g_] if r_.get("cb") == cid)
        for s in sids:
            for g in GROUPS_S:
                for r in state_refs[s][g]:
                    if r["by"] == "obj" and cbs[r["cb"]]["kind"] == "func" and n_refs(r["cb"]) == 1 and rng.random() < P.get("p_conv_named_func", 0.3):
                        nm = f"on_{g}_{s}"
                        if not any(cb["name"] == nm and cb["provider"] == "sm" for cb in cbs.values()):
                            cbs[r["cb"]]["name"] = nm
                            cbs[r["cb"]]["conv_named"] = True
    # decorators
    for e in events:
        for g in GROUPS_T:
            if rng.random() < P["p_deco"]:
                nm = f"dc{next(namen)}"
                new_cb(nm, "sm", "deco", deco={"target": "event", "event": e, "group": g})
    for s in sids:
        for g in GROUPS_S:
            if rng.random() < P["p_deco"]:
                nm = f"dc{next(namen)}"
                new_cb(nm, "sm", "deco", deco={"target": "state", "state": s, "group": g})
    if amode == "one":
        pool = list(cbs)
        if pool:
            cbs[rng.choice([c for c in pool if cbs[c]["kind"] not in ("lambda", "boundm")] or pool)]["async"] = True
        elif validators:
            validators[rng.choice(list(validators))]["async"] = True
    rtc = P["rtc"] if P["rtc"] is not None else (rng.random() < 0.75)
    any_async = any(c["async"] for c in cbs.values()) or any(g["async"] for g in guards.values()) or any(
        v["async"] for v in validators.values())
    if any_async:
        rtc = True
        # H7: plain callbacks of an async-engine machine get a coroutine back from send();
        # nested sends are therefore placed in coroutine callbacks only
        for cb in cbs.values():
            if not cb["async"] and not P.get("sync_sends_on_async"):
                cb["script"].pop("sends", None)
    allow = P["allow"] if P["allow"] is not None else (rng.random() < 0.3)
    # guards of a transition written as ONE boolean expression (g1 and g2 and not u1) instead of
    # cond=[...] / unless=[...] lists: same meaning, other code path (decided again at render time:
    # only when every guard has a single provider and none is a coroutine)
    pj = P.get("p_join_guards", 0.15)
    for t in trans:
        if t.get("from_any") is None:
            t["join_guards"] = len(t["guards"]) >= 2 and rng.random() < pj
    for d in any_decls:
        flag = len(d["copies"][0]["guards"]) >= 2 and rng.random() < pj
        for c in d["copies"]:
            c["join_guards"] = flag
    states = []
    for k, s in enumerate(sids):
        states.append({"id": s, "initial": s == sids[0], "final": s in finals})
    return {
        "uid": uid, "states": states, "events": events, "transitions": trans,
        "state_refs": state_refs, "guards": guards, "validators": validators, "cbs": cbs,
        "providers": providers, "late": [], "opts": {"rtc": rtc, "allow": allow},
        "any_decls": [{"k": d["k"], "dst": d["dst"], "event": d["event"], "proto": d["copies"][0]["i"]} for d in any_decls],
        "any_async": any_async, "state_field": "state",
    }


def gen_valuation(rng, spec, p_true=0.55, p_raise=0.2):
    from .rec import FALSY, TRUTHY

    val = {}
    for nm in spec["guards"]:
        val[nm] = rng.choice(TRUTHY) if rng.random() < p_true else rng.choice(FALSY)
    for nm in spec["validators"]:
        val[nm] = "raise" if rng.random() < p_raise else "ok"
    return val


def gen_history(rng, spec, length, p_unknown=0.08, styles=("send",), p_args=0.3, p_pick=0.5):
    steps = []
    evs = spec["events"]
    for _ in range(length):
        if rng.random() < p_unknown:
            ev = rng.choice(["zz_unknown", "g0", evs[0] + "x", evs[0][:-1] or "q"])
            if ev in evs:
                ev = "zz_unknown"
        else:
            ev = rng.choice(evs)
        step = {"op": "send", "event": ev, "style": rng.choice(styles), "val": gen_valuation(rng, spec)}
        if rng.random() < p_pick:
            step["pick"] = rng.randint(0, 7)
        if rng.random() < p_args:
            step["args"] = [rng.randint(0, 9) for _ in range(rng.randint(1, 2))]
            step["kwargs"] = {"ukw": rng.randint(0, 9)}
        steps.append(step)
    return steps
