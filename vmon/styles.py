"""Declaration-style renderers for C15: the same abstract machine spec written in the documented
alternative ways. ``spec["style"]`` is a dict of decisions (all optional):

  states:      "attrs" | "dict" | "enum"
  tstyle:      {i: "to" | "from" | "itself"}             per explicit transition
  group:       True -> adjacent same-source transitions with identical kwargs in one multi-target call,
               adjacent same-target ones in one multi-source from_() call
  events:      {event: "attr" | "attr_right" | "explicit_event" | "kw_str" | "kw_list" | "kw_event" | "decorator"}
  any:         "any" | "explicit"                        from_.any() vs explicit copies
  base_events: [events declared in a base class]         inheritance
"""

from __future__ import annotations

from .render import _cb_def, _guard_def, _validator_def, render_providers, state_kwargs, transition_kwargs


def render_styled(spec, cls_suffix=""):
    st = spec["style"]
    uid = f"{spec['uid']}{cls_suffix}"
    L = render_providers(spec, uid)
    states_style = st.get("states", "attrs")
    pre = ""          # prefix to reference states inside the class body
    if states_style == "enum":
        L += ["import enum", f"class StEnum_{uid}(enum.Enum):"]
        if st.get("enum_inst"):
            # States.from_enum(..., use_enum_instance=True): the state values are the members themselves;
            # one member is falsy; a fixed repr lets the reference name the value without the class
            for k_, s in enumerate(spec["states"]):
                L.append(f"    {s['id']} = {k_ + 1}")
            L.append(f"    def __bool__(self): return self.name != {st['enum_inst']!r}")
            L.append("    def __repr__(self): return 'EI.' + self.name")
        else:
            for s in spec["states"]:
                L.append(f"    {s['id']} = {s['value']['expr'] if s.get('value') else repr(s['id'])}")
        if st.get("enum_alias", True) and not st.get("enum_inst"):
            s0 = spec["states"][-1]
            L.append(f"    alias_of_last = {s0['value']['expr'] if s0.get('value') else repr(s0['id'])}")
        L.append("")
    base_split = st.get("base_split")
    base_events = []
    if base_split:
        _exp = [t for t in spec["transitions"] if t.get("from_any") is None]
        base_events = [e for e in spec["events"] if any(e in t["events"] for t in _exp[:base_split])]
    explicit = [t for t in spec["transitions"] if t.get("from_any") is None]
    any_copies = [t for t in spec["transitions"] if t.get("from_any") is not None]
    any_mode = st.get("any", "any")
    strict = spec["opts"].get("strict")

    def state_lines(indent="    "):
        out = [f"{indent}{e} = Event(name={e!r})" for e in spec["events"] if evstyle.get(e) == "kw_obj"]
        if states_style == "attrs":
            for s in spec["states"]:
                out.append(f"{indent}{s['id']} = State({', '.join(state_kwargs(spec, s))})")
        elif states_style == "dict":
            items = [f"{s['id']!r}: State({', '.join(state_kwargs(spec, s))})" for s in spec["states"]]
            out.append(f"{indent}_S = States({{{', '.join(items)}}})")
        else:
            init = next(s["id"] for s in spec["states"] if s["initial"])
            finals = [f"StEnum_{uid}.{s['id']}" for s in spec["states"] if s["final"]]
            out.append(f"{indent}_S = States.from_enum(StEnum_{uid}, initial=StEnum_{uid}.{init}"
                       + (f", final=[{', '.join(finals)}]" if finals else "")
                       + (", use_enum_instance=True" if st.get("enum_inst") else "") + ")")
        return out

    if states_style in ("dict", "enum"):
        pre = "_S."

    def ref(sid):
        return pre + sid

    tstyle = st.get("tstyle", {})
    evstyle = st.get("events", {})

    # events whose transitions carry the event through event= keyword (no attribute for the event)
    kw_events = {e for e, s_ in evstyle.items() if s_.startswith("kw_")}

    split_first = {}
    for e, s_ in evstyle.items():
        if s_ == "split":
            holders = [t for t in explicit if e in t["events"]]
            if len(holders) >= 2:
                split_first[e] = holders[0]["i"]

    def ev_kw(t, events_subset):
        """event= argument for the events of t declared by keyword."""
        evs = [e for e in t["events"] if e in events_subset and (e in kw_events or split_first.get(e) == t["i"])]
        if not evs:
            return None
        styles_ = {evstyle[e] for e in evs}
        if styles_ == {"split"}:
            return "event=" + repr(" ".join(evs))
        if "kw_obj" in styles_:
            objs = [e if evstyle[e] == "kw_obj" else f"Event({e!r})" for e in evs]
            return "event=" + (objs[0] if len(objs) == 1 else "[" + ", ".join(objs) + "]")
        if "kw_list" in styles_ and len(evs) > 1:
            return "event=[" + ", ".join(repr(e) for e in evs) + "]"
        if "kw_event" in styles_ and len(evs) == 1:
            return f"event=Event({evs[0]!r})"
        return "event=" + repr(" ".join(evs))

    def decl_transitions(ts, events_subset, indent="    "):
        """Statements creating the transitions ts (declaration order kept)."""
        out = []
        i = 0
        while i < len(ts):
            t = ts[i]
            kws = transition_kwargs(spec, t)
            ek = ev_kw(t, events_subset)
            style = tstyle.get(str(t["i"]), "to")
            # multi-target grouping: adjacent transitions, same source, identical kwargs and events
            group = [t]
            if st.get("group") and style == "to":
                j = i + 1
                while (j < len(ts) and ts[j]["src"] == t["src"] and transition_kwargs(spec, ts[j]) == kws
                       and ts[j]["events"] == t["events"] and tstyle.get(str(ts[j]["i"]), "to") == "to"
                       and not ts[j]["internal"]):
                    group.append(ts[j])
                    j += 1
            if st.get("group") and style == "from" and len(group) == 1:
                j = i + 1
                while (j < len(ts) and ts[j]["dst"] == t["dst"] and transition_kwargs(spec, ts[j]) == kws
                       and ts[j]["events"] == t["events"] and tstyle.get(str(ts[j]["i"]), "to") == "from"
                       and not ts[j]["internal"] and ts[j]["src"] not in [g["src"] for g in group]):
                    group.append(ts[j])
                    j += 1
            args_kw = kws + ([ek] if ek else [])
            name = f"_t{t['i']}"
            if len(group) > 1:
                if style == "to":
                    call = f"{ref(t['src'])}.to({', '.join([ref(g['dst']) for g in group] + args_kw)})"
                else:
                    call = f"{ref(t['dst'])}.from_({', '.join([ref(g['src']) for g in group] + args_kw)})"
                out.append(f"{indent}{name} = {call}")
                for g in group[1:]:
                    alias[g["i"]] = name
                    member_of[name] = member_of.get(name, [t["i"]]) + [g["i"]]
                i += len(group)
                continue
            if style == "itself" and t["src"] == t["dst"]:
                call = f"{ref(t['src'])}.to.itself({', '.join(args_kw)})"
            elif style == "from":
                call = f"{ref(t['dst'])}.from_({', '.join([ref(t['src'])] + args_kw)})"
            else:
                call = f"{ref(t['src'])}.to({', '.join([ref(t['dst'])] + args_kw)})"
            out.append(f"{indent}{name} = {call}")
            i += 1
        return out

    alias, member_of = {}, {}

    def tname(t):
        return alias.get(t["i"], f"_t{t['i']}")

    def chain(names, right=False):
        names = list(dict.fromkeys(names))
        if len(names) <= 2 or not right:
            return " | ".join(names)
        # right-nested association: a | (b | (c | d))
        expr = names[-1]
        for n in reversed(names[:-1]):
            expr = f"{n} | ({expr})"
        return expr

    def decl_events(events, ts_pool, indent="    ", with_any=True):
        out, deco_events = [], []
        for e in events:
            style = evstyle.get(e, "attr")
            members = [tname(t) for t in ts_pool if e in t["events"] and split_first.get(e) != t["i"]]
            anys = []
            if not with_any:
                pass
            elif any_mode == "any":
                for d in spec.get("any_decls", []):
                    if d["event"] == e:
                        proto = spec["transitions"][d["proto"]]
                        anys.append(f"{ref(d['dst'])}.from_.any({', '.join(transition_kwargs(spec, proto))})")
            else:
                members += [tname(t) for t in any_copies if e in t["events"]]
            if style.startswith("kw_") and not anys:
                continue
            parts = members + anys
            if not parts:
                continue
            if style == "explicit_event":
                out.append(f"{indent}{e} = Event({chain(parts)}, name={e!r})")
            elif style == "decorator":
                deco_events.append((e, chain(parts)))
            else:
                out.append(f"{indent}{e} = {chain(parts, right=(style == 'attr_right'))}")
        return out, deco_events

    def methods(indent="    "):
        out = []
        for cid, cb in spec["cbs"].items():
            if cb["provider"] == "sm" and cb["kind"] == "method":
                out += _cb_def(cid, cb, indent)
        for nm, g in spec["guards"].items():
            if "sm" in g["providers"]:
                out += _guard_def(nm, g, "sm", indent)
        for nm, v in spec["validators"].items():
            if "sm" in v["providers"]:
                out += _validator_def(nm, v, "sm", indent)
        return out

    def funcs(indent="    "):
        out = []
        for cid, cb in spec["cbs"].items():
            if cb["provider"] == "sm" and cb["kind"] == "func":
                out += _cb_def(cid, cb, indent)
        return out

    def decorators(events_available, indent="    "):
        out = []
        for cid, cb in spec["cbs"].items():
            if cb["kind"] == "deco":
                d = cb["deco"]
                if d["target"] == "event":
                    if d["event"] not in events_available:
                        continue
                    if spec["style"].get("deco_event_cb") == cid:
                        continue
                    out.append(f"{indent}@{d['event']}.{d['group']}")
                else:
                    out.append(f"{indent}@{ref(d['state'])}.{d['group']}")
                out += _cb_def(cid, cb, indent)
        return out

    names_to_del = []

    def body(ts, events, with_states, indent="    "):
        out = []
        out += funcs(indent) if with_states else []
        if with_states:
            out += state_lines(indent)
        out += decl_transitions(ts, set(events), indent)
        # the base class never declares the from_.any() transitions: they come after all explicit ones
        ev_lines, deco_events = decl_events(events, ts, indent, with_any=False)
        out += ev_lines
        for e, expr in deco_events:
            cid = spec["style"]["deco_event_cb"]
            cb = spec["cbs"][cid]
            out.append(f"{indent}@({expr})")
            lines = _cb_def(cid, dict(cb, name=e), indent)
            out += lines
        return out

    if base_split:
        base_ts = explicit[:base_split]
        sub_ts = explicit[base_split:]
        L.append(f"class B_{uid}(StateMachine):")
        L += body(base_ts, base_events, True)
        used = [f"_t{t['i']}" for t in base_ts if t["i"] not in alias]
        if used:
            L.append("    del " + ", ".join(used))
        L.append("")
        L.append(f"class M_{uid}(B_{uid}{', strict_states=True' if strict else ''}):")
        old_pre = pre
        pre = f"B_{uid}." + ("_S." if states_style in ("dict", "enum") else "")
        # events of the subclass: new ones AND inherited ones that get further transitions here
        sub_events = [e for e in spec["events"] if any(e in t["events"] for t in sub_ts)
                      or any(d["event"] == e for d in spec.get("any_decls", []))]
        extra_ts = sub_ts + (any_copies if any_mode == "explicit" else [])
        lines = decl_transitions(sub_ts, set(sub_events))
        if any_mode == "explicit":
            lines += decl_transitions(any_copies, set(sub_events))
        ev_lines, deco_events = decl_events(sub_events, sub_ts)
        lines += ev_lines
        for e, expr in deco_events:
            cid = spec["style"]["deco_event_cb"]
            lines.append(f"    @({expr})")
            lines += _cb_def(cid, dict(spec["cbs"][cid], name=e))
        L += lines or ["    pass"]
        used = [f"_t{t['i']}" for t in extra_ts if t["i"] not in alias]
        if used:
            L.append("    del " + ", ".join(used))
        L += methods()
        pre = f"B_{uid}." + ("_S." if states_style in ("dict", "enum") else "")
        L += decorators(set(sub_events))
        pre = old_pre
    else:
        L.append(f"class M_{uid}(StateMachine{', strict_states=True' if strict else ''}):")
        L += funcs()
        L += state_lines()
        L += decl_transitions(explicit, set(spec["events"]))
        if any_mode == "explicit":
            L += decl_transitions(any_copies, set(spec["events"]))
        ev_lines, deco_events = decl_events(spec["events"], explicit)
        L += ev_lines
        for e, expr in deco_events:
            cid = spec["style"]["deco_event_cb"]
            L.append(f"    @({expr})")
            L += _cb_def(cid, dict(spec["cbs"][cid], name=e))
        used = [f"_t{t['i']}" for t in explicit + (any_copies if any_mode == "explicit" else []) if t["i"] not in alias]
        if used:
            L.append("    del " + ", ".join(used))
        L += methods()
        L += decorators(set(spec["events"]))
    return "\n".join(L) + "\n"
