"""Controlled thread scheduler: baton passing at line granularity (sys.monitoring LINE events on the
library's dispatch code + explicit yield points in generated callbacks), bounded-preemption DFS by
re-execution (CHESS-style). A schedule is the list of choices => exact replay."""

from __future__ import annotations

import sys
import threading

TOOL = 4  # sys.monitoring tool id (between PROFILER_ID=2 and OPTIMIZER_ID=5 are free for tools)


def dispatch_code_objects():
    """Code objects of the event dispatch path, found by reflection (no line numbers)."""
    import statemachine.engines.base as base
    import statemachine.engines.sync as sync
    from statemachine.event import Event
    from statemachine.statemachine import StateMachine

    codes = []
    for mod in (base, sync):
        for cls in vars(mod).values():
            if isinstance(cls, type) and cls.__module__ == mod.__name__:
                for f in vars(cls).values():
                    c = getattr(f, "__code__", None)
                    if c is not None:
                        codes.append(c)
    for owner, name in ((Event, "__call__"), (StateMachine, "send"), (StateMachine, "_put_nonblocking"),
                        (StateMachine, "_processing_loop")):
        f = owner.__dict__.get(name)      # private helpers may be renamed: instrument what exists
        c = getattr(f, "__code__", None)
        if c is not None:
            codes.append(c)
    cs = StateMachine.__dict__.get("current_state")
    if isinstance(cs, property):
        codes += [cs.fget.__code__, cs.fset.__code__]
    return codes


class Deadlock(Exception):
    pass


class ThreadSched:
    """One execution under a schedule prefix; afterwards `trace` holds every decision point:
    (chosen, enabled tuple, running thread or None)."""

    def __init__(self, prefix=()):
        self.prefix = list(prefix)
        self.trace = []
        self.cv = threading.Condition()
        self.current = None
        self.alive = []          # names of started, unfinished threads
        self.by_ident = {}
        self.expected = 0
        self.registered = 0
        self.switches_in_dispatch = 0
        self.lines = 0

    # -- decisions ---------------------------------------------------------------------
    def _decide(self, running, enabled, in_dispatch=False):
        idx = len(self.trace)
        if idx < len(self.prefix) and self.prefix[idx] in enabled:
            choice = self.prefix[idx]
        elif running is not None and running in enabled:
            choice = running
        else:
            choice = enabled[0]
        self.trace.append((choice, tuple(enabled), running))
        if running is not None and choice != running and in_dispatch:
            self.switches_in_dispatch += 1
        return choice

    # -- thread lifecycle -----------------------------------------------------------------
    def register(self, name):
        with self.cv:
            self.by_ident[threading.get_ident()] = name
            self.alive.append(name)
            self.alive.sort()
            self.registered += 1
            self.cv.notify_all()
            # wait until every expected thread has registered and one is chosen
            while self.registered < self.expected:
                self.cv.wait(5)
            if self.current is None and not self.trace and name == self.alive[0]:
                self.current = self._decide(None, list(self.alive))
                self.cv.notify_all()
            self._wait_turn(name)

    def _wait_turn(self, name):
        n = 0
        while self.current != name:
            if not self.cv.wait(10):
                n += 1
                if n > 3:
                    raise Deadlock(f"{name} never scheduled; current={self.current} alive={self.alive}")

    def yield_point(self, who=None, in_dispatch=False):
        name = self.by_ident.get(threading.get_ident())
        if name is None:
            return
        with self.cv:
            if self.current != name:
                self._wait_turn(name)
            choice = self._decide(name, list(self.alive), in_dispatch)
            if choice != name:
                self.current = choice
                self.cv.notify_all()
                self._wait_turn(name)

    def finish(self):
        name = self.by_ident.get(threading.get_ident())
        with self.cv:
            if name in self.alive:
                self.alive.remove(name)
            self.by_ident.pop(threading.get_ident(), None)
            if self.alive:
                self.current = self._decide(None, list(self.alive))
            else:
                self.current = None
            self.cv.notify_all()

    # -- sys.monitoring glue ---------------------------------------------------------------
    def line_event(self, code, line):
        if threading.get_ident() in self.by_ident:
            self.lines += 1
            self.yield_point(in_dispatch=True)


_active = {"sched": None, "installed": False}


def _line_cb(code, line):
    s = _active["sched"]
    if s is not None:
        s.line_event(code, line)


def focus_code_objects():
    """Only the enqueue / elect-the-drainer / drain / release region (fewer scheduling points, so that
    deeper preemption bounds become affordable)."""
    import statemachine.engines.base as base
    import statemachine.engines.sync as sync

    out = []
    for cls, names in ((getattr(sync, "SyncEngine", None), ("processing_loop",)), (getattr(base, "BaseEngine", None), ("put",))):
        for n in names:
            f = getattr(cls, "__dict__", {}).get(n)
            c = getattr(f, "__code__", None)
            if c is not None:
                out.append(c)
    return out or dispatch_code_objects()


def install(focus=False):
    if _active["installed"]:
        return
    mon = sys.monitoring
    mon.use_tool_id(TOOL, "vmon-sched")
    mon.register_callback(TOOL, mon.events.LINE, _line_cb)
    codes = focus_code_objects() if focus else dispatch_code_objects()
    _active["codes"] = codes
    for code in codes:
        mon.set_local_events(TOOL, code, mon.events.LINE)
    _active["installed"] = True


def uninstall():
    if not _active["installed"]:
        return
    mon = sys.monitoring
    for code in _active.get("codes") or dispatch_code_objects():
        mon.set_local_events(TOOL, code, 0)
    mon.register_callback(TOOL, mon.events.LINE, None)
    mon.free_tool_id(TOOL)
    _active["installed"] = False


def run_schedule(prefix, bodies):
    """bodies: {name: callable}. Runs them as threads under the schedule; returns the scheduler."""
    sched = ThreadSched(prefix)
    sched.expected = len(bodies)
    errors = {}

    def wrap(name, fn):
        def target():
            try:
                sched.register(name)
                try:
                    fn()
                except BaseException as err:  # noqa: BLE001
                    errors[name] = f"{type(err).__name__}: {err}"
            finally:
                sched.finish()
        return target

    _active["sched"] = sched
    threads = [threading.Thread(target=wrap(n, f), name=n, daemon=True) for n, f in sorted(bodies.items())]
    for t in threads:
        t.start()
    for t in threads:
        t.join(60)
    _active["sched"] = None
    sched.errors = errors
    sched.hung = [t.name for t in threads if t.is_alive()]
    return sched


def preemptions(trace_prefix):
    return sum(1 for choice, enabled, running in trace_prefix if running is not None and running in enabled and choice != running)


def children(trace, prefix_len, bound):
    """New schedule prefixes differing from this run at one decision point beyond the prefix."""
    out = []
    choices = [c for c, _e, _r in trace]
    for i in range(prefix_len, len(trace)):
        choice, enabled, running = trace[i]
        base = preemptions(trace[:i])
        for alt in enabled:
            if alt == choice:
                continue
            cost = 1 if (running is not None and running in enabled and alt != running) else 0
            if base + cost <= bound:
                out.append(choices[:i] + [alt])
    return out
