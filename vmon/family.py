"""Shared shard runner for the trace-checker family of properties (C01-C05, C11-C14)."""

from __future__ import annotations

import hashlib
import json
import random
import time
import traceback

from . import gen, render
from .model import check_log
from .run import Run, Scenario


def h(obj):
    return hashlib.sha1(json.dumps(obj, sort_keys=True, default=str).encode()).hexdigest()[:12]


def trace_excerpt(log, n, before=25, after=4):
    out = []
    for e in log:
        if n is not None and (e["n"] < n - before or e["n"] > n + after):
            continue
        out.append({k: v for k, v in e.items() if k not in ("model_ok", "ed_ok", "t_int", "inv")})
    return out[-(before + after + 2):]


class ScenarioTimeout(BaseException):
    pass


def _alarm(signum, frame):
    raise ScenarioTimeout()


def explore(desc, make_case, owns, signature, classify=None, sample_pred=None, max_samples=2,
            time_cap=None, extra_check=None, scenario_timeout=60):
    """make_case(rng, i) -> dict(scenario=Scenario, faults=[None|fault,...], value_of=..., prepare=...)
    owns(rule) -> bool; signature(case, ck, log) -> hashable or None (non-trivial signature)."""
    rng = random.Random(desc["seed"])
    hung = []
    counters = {"scenarios": 0, "runs": 0, "foreign_aborts": 0, "own_rejections": 0, "log_events": 0,
                "harness_errors": 0}
    foreign = {}
    violations, sigs, samples = [], set(), []
    t0 = time.time()
    import signal
    import threading

    use_alarm = threading.current_thread() is threading.main_thread()
    if use_alarm:
        signal.signal(signal.SIGALRM, _alarm)
    for i in range(desc["count"]):
        if time_cap and time.time() - t0 > time_cap:
            counters["time_capped"] = 1
            break
        case = make_case(rng, i)
        if case is None:
            continue
        sc = case["scenario"]
        counters["scenarios"] += 1
        if sc.spec.get("style"):
            counters["machines_in_alternative_declaration_style"] = counters.get("machines_in_alternative_declaration_style", 0) + 1
        for fault in case.get("faults", [None]):
            try:
                if use_alarm:
                    signal.setitimer(signal.ITIMER_REAL, scenario_timeout)
                try:
                    run = Run(sc, fault=fault, send_budget=case.get("send_budget", 8))
                    if case.get("rec_setup"):
                        case["rec_setup"](run.rec)
                    log = run.execute()
                    rej, ck = check_log(sc.spec, log, value_of=case.get("value_of"),
                                        strict_args=case.get("strict_args", True), prepare=case.get("prepare"))
                finally:
                    if use_alarm:
                        signal.setitimer(signal.ITIMER_REAL, 0)
            except ScenarioTimeout:
                # neither the library nor the reference may spin: a scenario takes milliseconds
                # (a wall-clock watchdog: its firing is INCONCLUSIVE, never a verdict)
                counters["scenario_hangs"] = counters.get("scenario_hangs", 0) + 1
                hung.append(f"scenario {counters['scenarios']} (seed {desc.get('seed')}) still running after {scenario_timeout}s wall clock")
                if counters["scenario_hangs"] >= 3:
                    break
                continue
            except Exception as err:  # noqa: BLE001  harness problem, never a verdict
                counters["harness_errors"] += 1
                if counters["harness_errors"] <= 2:
                    hung.append(f"harness error in scenario {counters['scenarios']} (seed {desc.get('seed')}): "
                                + traceback.format_exc()[-600:].replace("\n", " | "))
                continue
            counters["runs"] += 1
            counters["log_events"] += len(log)
            for k, v in ck.stats.items():
                counters[k] = counters.get(k, 0) + v
            extra = extra_check(case, run, log, ck, fault) if (extra_check and rej is None) else None
            sflags = getattr(ck, "soft_flags", [])
            own_soft = [x for i_, x in enumerate(getattr(ck, "softs", [])) if owns(x[0], sflags[i_] if i_ < len(sflags) else {})]
            counters["soft_deviations"] = counters.get("soft_deviations", 0) + len(getattr(ck, "softs", []))
            if own_soft and (rej is None or not owns(rej.rule, rej.flags)):
                extra = own_soft[0]
                rej = None
            if rej is None and extra is None:
                if getattr(ck, "softs", None):
                    counters["foreign_aborts"] += 1
                    foreign[ck.softs[0][0]] = foreign.get(ck.softs[0][0], 0) + 1
                    continue
                for s_ in signature(case, ck, log, fault) or []:
                    sigs.add(h(s_))
                for k_, v_ in case.pop("_counters", {}).items():
                    counters[k_] = counters.get(k_, 0) + v_
                if len(samples) < max_samples and (sample_pred is None or sample_pred(case, ck, log, fault)):
                    samples.append({
                        "class_source": run.source, "steps": sc.steps[:6], "fault": fault, "driver": sc.driver,
                        "trace_excerpt": trace_excerpt(log, None, 0, 0)[-12:],
                    })
                continue
            if extra is not None:
                rule, detail, n = extra
                flags = {}
            else:
                rule, detail, n, flags = rej.rule, rej.detail, rej.n, rej.flags
            # a valid generated machine that cannot even be constructed concerns every property checked on it
            if owns(rule, flags) or rule == "construct.raised":
                counters["own_rejections"] += 1
                mech = classify(case, rule, detail, log, fault, ck) if classify else rule
                violations.append({
                    "mechanism": mech, "rule": rule, "detail": detail[:700],
                    "witness": {"scenario": sc.to_json(), "fault": fault, "source": run.source,
                                "trace": trace_excerpt(log, n), "warnings": run.warnings[:5]},
                })
            else:
                counters["foreign_aborts"] += 1
                foreign[rule] = foreign.get(rule, 0) + 1
    counters["foreign_rules"] = [f"{k}" for k in sorted(foreign)]
    byk = {}
    for v in violations:
        byk.setdefault(v["mechanism"], []).append(v)
    violations = [v for vs in byk.values() for v in sorted(vs, key=lambda x: len(json.dumps(x, default=str)))[:2]]
    out = {"evaluations": counters["runs"], "signatures": sorted(sigs), "samples": samples,
           "counters": counters, "violations": violations}
    if counters["scenarios"] and counters["foreign_aborts"] > 0.25 * counters["runs"]:
        out["inconclusive"] = [f"foreign aborts {counters['foreign_aborts']} of {counters['runs']} runs: {foreign}"]
    if hung:
        out["inconclusive"] = out.get("inconclusive", []) + ["watchdog / harness: " + "; ".join(hung[:3])]
    return out


def replay_case(witness, owns, value_of=None, prepare=None):
    w = witness["witness"]
    sc = Scenario(w["scenario"]["spec"], w["scenario"]["steps"], w["scenario"].get("driver", "sync"))
    run = Run(sc, fault=w.get("fault"))
    log = run.execute()
    rej, ck = check_log(sc.spec, log, value_of=value_of, prepare=prepare)
    violations = []
    if rej is not None:
        violations.append({"mechanism": rej.rule, "rule": rej.rule, "detail": rej.detail,
                           "witness": {"trace": trace_excerpt(log, rej.n)}})
    return {"evaluations": 1, "violations": violations, "counters": dict(ck.stats)}


def std_plan(tier, seed, quick_count, thorough_count, nshards_q=16, nshards_t=64, **extra):
    if tier == "quick":
        n, per = nshards_q, max(1, quick_count // nshards_q)
    else:
        n, per = nshards_t, max(1, thorough_count // nshards_t)
    return [dict({"seed": seed * 1000003 + i * 7919 + 11, "count": per, "shard": i, "tier": tier}, **extra) for i in range(n)]


def spec_shape(spec):
    return [(t["src"], t["dst"], tuple(t["events"]), t["internal"], tuple((g["kind"], g["name"]) for g in t["guards"]),
             tuple(t["validators"])) for t in spec["transitions"]]


def maybe_style(rng, spec, p_style):
    """With probability p_style the machine is written in another declaration style (C15's renderer:
    from_/itself, grouped targets, event= keywords, Event objects, decorators, dict/enum state
    containers, inheritance split, from_.any() spelled out) instead of the canonical one."""
    if p_style and rng.random() < p_style and not spec.get("prelude") and not spec.get("mixin"):
        from props import c15

        spec["style"] = c15.plan_style(rng, spec)
    return spec


def basic_case(rng, profile, hist=(5, 25), drivers=("sync",), styles=("send",), p_unknown=0.08, async_modes=("none",), p_style=0.0, p_clone=0.06):
    prof = dict(profile)
    prof["async_mode"] = rng.choice(async_modes)
    spec = maybe_style(rng, gen.gen_spec(rng, prof), p_style)
    driver = rng.choice(drivers) if spec["any_async"] or rng.random() < 0.2 else "sync"
    steps = [{"op": "construct", "val": gen.gen_valuation(rng, spec)}]
    if spec["any_async"] and rng.random() < 0.5:
        steps.append({"op": "activate"})
    steps += gen.gen_history(rng, spec, rng.randint(*hist), p_unknown=p_unknown, styles=styles)
    if p_clone and rng.random() < p_clone:
        first_send = next((i for i, s_ in enumerate(steps) if s_["op"] == "send"), len(steps))
        steps.insert(rng.randint(first_send, len(steps)), {"op": "become_clone", "how": rng.choice(["deepcopy", "pickle"])})
    return {"scenario": Scenario(spec, steps, driver)}
