#!/venv/bin/python
"""Confirms sub-agent seeded changes in their scratch worktrees (pinned commit) and files the
confirmed ones under /verif/seeded/<prop>-<n>/ (patch.diff, demo.py, meta.json)."""
import json
import os
import shutil
import subprocess
import sys
from concurrent.futures import ThreadPoolExecutor

OUT = "/verif/seeded"
SRC = os.environ.get("SEED_SRC", "/tmp/seed_out")
WT_PREFIX = os.environ.get("SEED_WT", "/tmp/wt_")
TAG = os.environ.get("SEED_TAG", "")


def sh(cmd, cwd, env=None, timeout=900):
    e = dict(os.environ)
    if env:
        e.update(env)
    cp = subprocess.run(cmd, shell=True, cwd=cwd, env=e, stdout=subprocess.PIPE, stderr=subprocess.STDOUT, text=True, timeout=timeout)
    return cp.returncode, cp.stdout


def confirm_prop(pid):
    wt = f"{WT_PREFIX}{pid}"
    res = []
    for n in ("1", "2", "3"):
        meta_base = "the pinned commit" if not TAG else f"/repo HEAD at the time of seeding (round {TAG.strip('r-') or 2}, after the repairs)"
        d = f"{SRC}/{pid}/{n}"
        if not os.path.exists(f"{d}/patch.diff"):
            continue
        sh("git checkout -q -- . && git clean -fdq", wt)
        rc, out = sh(f"git apply {d}/patch.diff", wt)
        if rc != 0:
            res.append((pid, n, "patch does not apply", out[-300:]))
            continue
        rc_t, out_t = sh("/venv/bin/python -m pytest -q -p no:cacheprovider --timeout=900 2>&1 | tail -3", wt)
        passed = "348 passed" in out_t and " failed" not in out_t and " error" not in out_t
        sh("git checkout -q -- docs/images; rm -rf .benchmarks .coverage", wt)
        rc_with, out_with = sh(f"/venv/bin/python {d}/demo.py", wt, env={"PYTHONPATH": wt}, timeout=300)
        sh("git checkout -q -- . && git clean -fdq", wt)
        rc_without, out_without = sh(f"/venv/bin/python {d}/demo.py", wt, env={"PYTHONPATH": wt}, timeout=300)
        ok = passed and rc_with == 1 and rc_without == 0 and wt in out_with
        meta = json.load(open(f"{d}/meta.json"))
        meta.update({
            "confirmed": ok, "confirmed_tests_passed_with_change": passed,
            "confirmed_demo_exit_with_change": rc_with, "confirmed_demo_exit_without_change": rc_without,
            "what_i_ran": f"in scratch worktree {wt} of {meta_base}: git apply patch.diff; pytest -q (348 passed required); "
                          f"PYTHONPATH={wt} python demo.py (exit 1 required); git checkout -- .; python demo.py (exit 0 required)",
            "breaks": pid,
        })
        if ok:
            tgt = f"{OUT}/{pid}-{TAG}{n}"
            os.makedirs(tgt, exist_ok=True)
            shutil.copy(f"{d}/patch.diff", tgt)
            shutil.copy(f"{d}/demo.py", tgt)
            json.dump(meta, open(f"{tgt}/meta.json", "w"), indent=1)
        res.append((pid, n, "CONFIRMED" if ok else f"REJECTED tests={passed} with={rc_with} without={rc_without}", out_t[-120:].strip()))
    return res


if __name__ == "__main__":
    pids = sys.argv[1:] or ["C%02d" % i for i in range(1, 19)]
    with ThreadPoolExecutor(int(os.environ.get('SEED_PAR', '6'))) as ex:
        for rs in ex.map(confirm_prop, pids):
            for r in rs:
                print(*r, flush=True)
