#!/venv/bin/python
"""Runs the owning property's check against every confirmed seeded change (scratch worktree of
/repo HEAD + patch, VERIF_REPO pointing at it) and tabulates which are detected."""
import json
import os
import subprocess
import sys
import time
from concurrent.futures import ThreadPoolExecutor

ROOT = os.path.dirname(os.path.dirname(os.path.abspath(__file__)))


def one(name, tier="quick", props=None):
    d = f"{ROOT}/seeded/{name}"
    meta = json.load(open(f"{d}/meta.json"))
    prop = meta["breaks"]
    wt = f"/tmp/cal_{name}"
    subprocess.run(f"git -C /repo worktree remove --force {wt}", shell=True, capture_output=True)
    subprocess.run(f"git -C /repo worktree add -q --detach {wt} HEAD", shell=True, check=True, capture_output=True)
    try:
        patch = f"{d}/patch_head.diff" if os.path.exists(f"{d}/patch_head.diff") else f"{d}/patch.diff"
        cp = subprocess.run(f"git -C {wt} apply {patch}", shell=True, capture_output=True, text=True)
        if cp.returncode != 0:
            cp = subprocess.run(f"git -C {wt} apply --3way {d}/patch.diff", shell=True, capture_output=True, text=True)
            if cp.returncode != 0:
                return name, prop, "PATCH-FAILS", cp.stderr[-200:], 0
        rows = []
        for p in (props or [prop]):
            if not os.path.exists(f"{ROOT}/props/{p.lower()}.py"):
                rows.append((p, "NO-CHECK", ""))
                continue
            t0 = time.time()
            env = dict(os.environ, VERIF_REPO=wt)
            cp = subprocess.run([f"{ROOT}/check", p, "--tier", tier, "--jobs", "8"], cwd=ROOT, env=env, capture_output=True, text=True, timeout=3000)
            mechs = [ln.strip()[:160] for ln in cp.stdout.splitlines() if ln.strip().startswith("mechanism=")]
            if cp.returncode == 2:
                mechs = [ln.strip()[:260] for ln in cp.stdout.splitlines() if ln.startswith("INCONCLUSIVE")][:2]
            rows.append((p, {0: "MISSED", 1: "DETECTED", 2: "INCONCLUSIVE"}.get(cp.returncode, f"rc{cp.returncode}"), f"{time.time()-t0:.0f}s " + " | ".join(mechs[:2])))
        return name, prop, rows, "", 0
    finally:
        subprocess.run(f"git -C /repo worktree remove --force {wt}", shell=True, capture_output=True)


if __name__ == "__main__":
    args = [a for a in sys.argv[1:] if not a.startswith("--")]
    tier = "thorough" if "--thorough" in sys.argv else "quick"
    extra = [a[8:] for a in sys.argv if a.startswith("--props=")]
    props = extra[0].split(",") if extra else None
    names = args or sorted(os.listdir(f"{ROOT}/seeded"))
    names = [n for n in names if os.path.isdir(f"{ROOT}/seeded/{n}")]
    with ThreadPoolExecutor(int(os.environ.get("SEEDCHECK_PAR", "3"))) as ex:
        for r in ex.map(lambda n: one(n, tier, props), names):
            name, prop, rows, err, _ = r
            if isinstance(rows, str):
                print(f"{name}: {rows} {err}", flush=True)
            else:
                for p, verdict, info in rows:
                    print(f"{name}: check {p}: {verdict} {info}", flush=True)
