#!/venv/bin/python
"""Regenerates MANIFEST.json from the per-property META tables (keeps it schema-valid)."""
import importlib
import json
import os
import sys

ROOT = os.path.dirname(os.path.dirname(os.path.abspath(__file__)))
sys.path.insert(0, ROOT)

ALL = ["C%02d" % i for i in range(1, 19)]
BASE = ("cd /repo && /venv/bin/python -m pytest -ra -q -p no:cacheprovider --timeout=900 "
        "--continue-on-collection-errors; rc=$?; git -C /repo checkout -- docs/images; exit $rc")

checks, na = [], []
for pid in ALL:
    path = os.path.join(ROOT, "props", pid.lower() + ".py")
    if not os.path.exists(path):
        na.append({"property_id": pid, "reason": "check not built yet in this round (runtime monitoring applies; see DESIGN.md section 3)"})
        continue
    mod = importlib.import_module("props." + pid.lower())
    m = mod.META
    checks.append({
        "property_id": pid,
        "quick_cmd": f"./check {pid} --tier quick",
        "thorough_cmd": f"./check {pid} --tier thorough",
        "evidence_file": f"/verif/evidence/{pid}.json",
        "replay_cmd_template": f"./check {pid} --replay {{path}}",
        "engine": "vmon",
        "level_claimed": {
            "category": m["level"],
            "text": (m.get("level_text") or (
                ("Every crash point (callback invocation position) of every generated scenario is exercised and judged by the online checker. " if m["level"] == "fault_enumeration" else
                 "Bounded exploration of the property's unbounded quantifier by seeded generation / exhaustive enumeration of small cases, every execution judged by an oracle independent of the implementation. ")
                + "Verdict = 'held on the executions observed', never 'verified'; evidence reports what the monitors saw. Workload and non-trivial rule: " + m["rule"]))[:1800],
            "design_ref": f"DESIGN.md section 3, {pid}",
        },
        "level_note": " ; ".join(m.get("assumptions", []))[:1500] or "see DESIGN.md",
        "technique": m.get("technique", "runtime monitoring: generated workloads + online oracle"),
    })

manifest = {
    "version": 1,
    "setup_cmd": "/venv/bin/pip install -q --no-index --find-links /opt/veriftools/wheels --target /verif/.deps icontract jsonschema || true",
    "hooks": {
        "guard": "PYSM_VERIF",
        "enable": "checks set PYSM_VERIF=1 in worker processes; instrumentation is attached from outside (generated callbacks, sys.monitoring on reflected code objects, wrapper contracts); the repository carries no hook code",
        "baseline_off_cmd": BASE,
        "source_commits": [],
        "add_only": True,
    },
    "engines": [{
        "name": "vmon", "path": "/verif/vmon",
        "serves_properties": [c["property_id"] for c in checks],
        "kind_free_text": "runtime monitors: recorder at the client boundary, reference interpreter + online trace checker, differential harnesses, fault enumeration, controlled thread/asyncio schedulers",
    }],
    "checks": checks,
    "not_applicable": na,
    "notes": "All checks observe executions of the real code in /repo (VERIF_REPO overrides). Exit 0 held / 1 violation / 2 inconclusive. Known findings: /verif/known_findings.json.",
}
with open(os.path.join(ROOT, "MANIFEST.json"), "w") as fh:
    json.dump(manifest, fh, indent=1)
try:
    sys.path.insert(0, os.path.join(ROOT, ".deps"))
    import jsonschema
    jsonschema.validate(manifest, json.load(open(os.path.join(ROOT, "schemas", "MANIFEST.schema.json"))))
    print("MANIFEST valid;", len(checks), "checks,", len(na), "not_applicable")
except ImportError:
    print("jsonschema missing; wrote MANIFEST unvalidated")
