#!/venv/bin/python
"""Turns tools/seedcheck.py output (stdin or file) into seeded/RESULTS.md."""
import json
import os
import sys

ROOT = os.path.dirname(os.path.dirname(os.path.abspath(__file__)))
lines = open(sys.argv[1]).read().splitlines() if len(sys.argv) > 1 else sys.stdin.read().splitlines()
rows = {}
for ln in lines:
    if ": check " not in ln:
        continue
    name, rest = ln.split(": check ", 1)
    prop, rest = rest.split(": ", 1)
    verdict = rest.split(" ", 1)[0]
    info = rest.split(" ", 2)[2] if len(rest.split(" ", 2)) > 2 else ""
    rows.setdefault(name, []).append((prop, verdict, info))
out = ["# Seeded changes x checks", "",
       "Each change keeps the repository's 348 tests passing (confirmed in a scratch worktree of the commit it was seeded on: the pinned commit for round 1, /repo HEAD of the time for `-rK-` rounds); `tools/seedcheck.py` applies it to a scratch worktree of /repo HEAD (`patch_head.diff` where the original no longer applies after later repairs) and runs the quick tier of the check named in the `check` column with VERIF_REPO. Rows whose `check` differs from `breaks` are cross-checks by a neighbouring property's check. DETECTED = exit 1 with a VIOLATION line, MISSED = exit 0, INCONCLUSIVE = exit 2.", "",
       "| change | breaks | what was changed | needs | check | verdict | first mechanism reported |", "|---|---|---|---|---|---|---|"]
for name in sorted(os.listdir(f"{ROOT}/seeded")):
    d = f"{ROOT}/seeded/{name}"
    if not os.path.isdir(d):
        continue
    meta = json.load(open(f"{d}/meta.json"))
    for prop, verdict, info in rows.get(name, [("-", "not run", "")]):
        mech = info.split("mechanism=", 1)[1].split(" count=")[0] if "mechanism=" in info else info[:60]
        out.append(f"| {name} | {meta['breaks']} | {meta.get('summary', '')[:160].replace('|', '/')} | {meta.get('needs', '')[:140].replace('|', '/')} | {prop} | {verdict} | {mech[:90].replace('|', '/')} |")
open(f"{ROOT}/seeded/RESULTS.md", "w").write("\n".join(out) + "\n")
print("rows", len(out) - 6)
