#!/venv/bin/python
"""Seed sweep: runs every check for the given seeds (and tier) and reports any non-held verdict."""
import os
import subprocess
import sys
import time

ROOT = os.path.dirname(os.path.dirname(os.path.abspath(__file__)))
tier = "thorough" if "--thorough" in sys.argv else "quick"
seeds = [int(a) for a in sys.argv[1:] if a.isdigit()] or [1, 2, 3]
props = [a for a in sys.argv[1:] if a.startswith("C")] or ["C%02d" % i for i in range(1, 19)]
bad = 0
for seed in seeds:
    for p in props:
        t0 = time.time()
        env = dict(os.environ, VERIF_SEED=str(seed), PYTHONHASHSEED="0")
        cp = subprocess.run([f"{ROOT}/check", p, "--tier", tier], cwd=ROOT, env=env, capture_output=True, text=True)
        line = [ln for ln in cp.stdout.splitlines() if ln.startswith(f"[{p}] tier")]
        status = {0: "held", 1: "VIOLATED", 2: "INCONCLUSIVE"}.get(cp.returncode, f"rc{cp.returncode}")
        print(f"seed={seed} {p} {status} {time.time()-t0:.0f}s {line[0][len(p)+3:] if line else ''}", flush=True)
        if cp.returncode != 0:
            bad += 1
            for ln in cp.stdout.splitlines():
                if ln.startswith("VIOLATION") or ln.startswith("INCONCLUSIVE") or ln.strip().startswith("mechanism="):
                    print("    " + ln[:400], flush=True)
print("non-held:", bad)
